"""C10 -- framing-critical tokens are accepted exactly per grammar, at any length.

Decided by: reflective language-equality proofs in Coq over the regex terms
regenerated from the source on this run (Props/C10.v), tied to the code by
(a) the translator, cross-checked by running the Coq matcher (extracted)
against CPython's re on the same strings applied the way the call site applies
it, and (b) call-site conformance: the real receiver / parser fed one line at
a time against the specification grammars."""
import itertools
import json
import os
import re
import sys

from lib import vcommon
from lib.vcommon import hexb

LEVEL = "proof"
ASSUMPTIONS = [
    "CPython's re engine is represented by the language semantics of the translated pattern; capture priority is irrelevant for accept/reject",
    "request-target is specified as 1*(octet except SP, CR, LF); method as a token without lower-case letters (DESIGN.md, specification decisions)",
]

GATE_ALPHABETS = {
    "gate_chunk_size": b"09afgAFG\n\r +-_x",
    "gate_chunk_ext": b";a=\"\\ \n\r\tZ0\x7f\x80",
    "gate_content_length": b"0159 \n\r+-_a\t\xb2",
    "gate_header_field": b"aZ:- \t\n\r\x00\x7f\x80_(",
    "gate_request_line": b"GgT /:HTP1.\n\r\t?#\x00\x80",
    "gate_quoted_string": b"\"\\a \t\n\x7f\x80\r",
}
SPEC_OF = {
    "gate_chunk_size": "spec_chunk_size",
    "gate_chunk_ext": "spec_chunk_ext",
    "gate_content_length": "spec_content_length",
    "gate_header_field": "spec_header_field",
    "gate_request_line": "spec_request_line",
}
PYWS = b" \t\r\x0b\x0c"  # stripped around the request line (no LF since fix 31e2659)


def gate_info():
    """How each gate is applied, re-derived from the source by the translator's
    own ast functions (so the harness applies the regex the way the code does)."""
    sys.path.insert(0, os.path.join(vcommon.VERIF, "translate"))
    import gen_regex
    import importlib

    info = {}
    for gate, fname, func, rxname, defmod in gen_regex.GATES:
        mod = importlib.import_module("waitress." + defmod)
        rx = getattr(mod, rxname)
        calls = gen_regex.find_calls(os.path.join(gen_regex.SRC, fname), func, rxname)
        if len(calls) != 1:
            continue
        fnode, method, call = calls[0]
        info[gate] = (rx, method, gen_regex.has_end_eq_len(fnode))
    return info


def py_apply(rx, method, end_eq_len, s):
    if isinstance(rx.pattern, str):
        s = s.decode("latin-1")
    m = getattr(rx, method)(s)
    if m is None:
        return False
    if end_eq_len and method == "match":
        return m.end() == len(s)
    return True


def strings_for(alpha, rng, tier):
    maxlen = 3 if tier == "quick" else 4
    out = []
    for n in range(0, maxlen + 1):
        for t in itertools.product(alpha, repeat=n):
            out.append(bytes(t))
    nrand = 1500 if tier == "quick" else 20000
    for _ in range(nrand):
        n = rng.randint(4, 40)
        out.append(bytes(rng.choice(alpha) for _ in range(n)))
    return out


# -- call sites on the real code -------------------------------------------------

def impl_chunk_line(line):
    from waitress.receiver import ChunkedReceiver
    from waitress.buffers import OverflowableBuffer

    r = ChunkedReceiver(OverflowableBuffer(1 << 20))
    try:
        r.received(line + b"\r\n")
    except Exception as e:  # pragma: no cover
        return "exn:" + type(e).__name__
    return "reject" if r.error else "accept"


def impl_head(head, past_gate=()):
    """past_gate: error texts of refusals decided after the gate under test
    (they count as 'accepted by the gate')."""
    from waitress.parser import HTTPRequestParser
    from waitress.adjustments import Adjustments

    p = HTTPRequestParser(_adj())
    try:
        p.received(head)
    except Exception as e:
        return "exn:" + type(e).__name__
    if not p.completed and not p.headers_finished:
        return "incomplete"
    if p.empty:
        return "empty"
    if p.error and p.error.body in past_gate:
        return "accept"
    return "reject" if p.error else "accept"


_ADJ = None


def _adj():
    global _ADJ
    if _ADJ is None:
        from waitress.adjustments import Adjustments
        _ADJ = Adjustments()
    return _ADJ


def run(ctx):
    probs = ctx.translate({"GenRegex"})
    ctx.gate()
    props_ok, failing, log = ctx.props()
    ctx.findings(["Findings/C10_KF1.v"])
    # the runner needs Gen/Lib/Spec only; build them even when a proof broke
    ctx.build(["Lib/RegexDec.vo", "Gen/GenRegex.vo", "Spec/Grammar.vo"])
    runner = ctx.runner("regex", "ExtRegex.v")
    if runner is None:
        ctx.oblige("extracted regex runner builds", False, "see notes")
        return
    rng = ctx.rng
    info = gate_info()
    evaluations = 0
    nontrivial = set()
    samples = []

    # (b) translator cross-check: Coq matcher on the generated term vs CPython
    trans_ok = True
    for gate, alpha in GATE_ALPHABETS.items():
        if gate not in info:
            trans_ok = False
            ctx.notes.append("gate %s: call site not found" % gate)
            continue
        rx, method, eel = info[gate]
        ss = strings_for(alpha, rng, ctx.tier)
        got = runner.query(["m %s %s" % (gate, hexb(s)) for s in ss])
        nacc = 0
        for s, g in zip(ss, got):
            evaluations += 1
            want = py_apply(rx, method, eel, s)
            if want:
                nacc += 1
                nontrivial.add((gate, s))
            if (g == "1") != want:
                trans_ok = False
                ctx.notes.append("translation mismatch %s on %r: coq=%s cpython=%s" % (gate, s, g, want))
                break
        if len(samples) < 6:
            samples.append({"gate": gate, "method": method, "strings": len(ss), "accepted": nacc,
                            "example": hexb(ss[-1])})
    ctx.oblige("K-regex: Coq matcher on generated terms agrees with CPython re as applied at each call site", trans_ok)

    # (c) call sites of the real code against the specification grammars
    def spec(name, ss):
        return [x == "1" for x in runner.query(["m %s %s" % (name, hexb(s)) for s in ss])]

    site_ok = True
    dist = {"accept": 0, "reject": 0, "other": 0}

    def disagree(site, inp, wire, expected, observed, kf=None):
        nonlocal site_ok
        if kf is None:
            site_ok = False
        ctx.report("%s:%s" % (site, inp.hex()),
                   "%s: grammar says %s, implementation %s on %r" % (site, expected, observed, inp),
                   {"site": site, "input_hex": inp.hex(), "wire_hex": wire.hex(),
                    "expected": expected, "observed": observed, "failing_input_found": True},
                   kf_class=kf)

    # chunk-size [chunk-ext] line
    lines = []
    for s in strings_for(GATE_ALPHABETS["gate_chunk_size"], rng, ctx.tier):
        if s and b"\r\n" not in s:
            lines.append(s)
    for e in strings_for(GATE_ALPHABETS["gate_chunk_ext"], rng, "quick"):
        if b"\r\n" not in e:
            lines.append(b"1a" + e)
            lines.append(b"0" + e)
    sizes = [l.split(b";", 1)[0] if b";" in l else l for l in lines]
    exts = [l[l.index(b";"):] if b";" in l else b"" for l in lines]
    ok_size = spec("spec_chunk_size", sizes)
    ok_ext = spec("spec_chunk_ext", exts)
    for l, a, b in zip(lines, ok_size, ok_ext):
        evaluations += 1
        want = "accept" if (a and b) else "reject"
        got = impl_chunk_line(l)
        dist[got if got in dist else "other"] += 1
        if want == "accept":
            nontrivial.add(("chunk", l))
        if got != want:
            disagree("chunk-line", l, l + b"\r\n", want, got)

    # Content-Length value (after OWS trimming done by the header gate)
    vals = [v for v in strings_for(GATE_ALPHABETS["gate_content_length"], rng, ctx.tier) if b"\r\n" not in v]
    hl = [b"Content-Length:" + v for v in vals]
    ok_hdr = spec("spec_header_field", hl)
    ok_cl = spec("spec_content_length", [v.strip(b" \t") for v in vals])
    for v, a, b in zip(vals, ok_hdr, ok_cl):
        evaluations += 1
        want = "accept" if (a and b) else "reject"
        wire = b"GET / HTTP/1.1\r\nContent-Length:" + v + b"\r\n\r\n"
        got = impl_head(wire)
        dist[got if got in dist else "other"] += 1
        if want == "accept":
            nontrivial.add(("cl", v))
        if got != want:
            disagree("content-length", v, wire, want, got)

    # ... and the same gate in every context in which the Content-Length is the
    # framing of the message (the message is not chunked): other framing-related
    # fields before / after it, HTTP/1.0 (Transfer-Encoding is not honoured there),
    # a Transfer-Encoding naming no coding.  The verdict must not depend on them.
    contexts = [
        (b"1.1", [b"Transfer-Encoding:"], []), (b"1.1", [], [b"Transfer-Encoding:"]),
        (b"1.1", [b"Transfer-Encoding: ,"], []), (b"1.1", [], [b"Transfer-Encoding: \t, ,"]),
        (b"1.0", [b"Transfer-Encoding: chunked"], []), (b"1.0", [], [b"Transfer-Encoding: chunked"]),
        (b"1.0", [], []), (b"1.0", [b"Connection: keep-alive"], []),
        (b"1.1", [b"Connection: close"], []), (b"1.1", [], [b"Expect: 100-continue"]),
        (b"1.1", [b"Host: h", b"X: y"], [b"Connection: keep-alive, close"]),
        (b"1.1", [b"Content-Type: text/plain"], [b"Transfer-Encoding:", b"Connection: close"]),
    ]
    ctx_vals = [v for v in vals if len(v) <= 3][:400] + [b"+5", b"-5", b"0x5", b"5_0", b"5,5", b"5 5", b"abc", b"\xb2",
                                                       b"5.0", b"1e1", b"5", b"0", b"007", b" 12 ", b"\t3", b""]
    ok_hdr2 = spec("spec_header_field", [b"Content-Length:" + v for v in ctx_vals])
    ok_cl2 = spec("spec_content_length", [v.strip(b" \t") for v in ctx_vals])
    n_ctx = 0
    for ver, before, after in contexts:
        for v, a, b in zip(ctx_vals, ok_hdr2, ok_cl2):
            evaluations += 1
            n_ctx += 1
            want = "accept" if (a and b) else "reject"
            wire = (b"POST / HTTP/" + ver + b"\r\n" + b"".join(h + b"\r\n" for h in before)
                    + b"Content-Length:" + v + b"\r\n" + b"".join(h + b"\r\n" for h in after) + b"\r\n")
            got = impl_head(wire)
            dist[got if got in dist else "other"] += 1
            if got != want:
                disagree("content-length-in-context", v, wire, want, got)

    # header line
    hls = [h for h in strings_for(GATE_ALPHABETS["gate_header_field"], rng, ctx.tier)
           if h and b"\r\n" not in h]
    ok_h = spec("spec_header_field", hls)
    for h, a in zip(hls, ok_h):
        evaluations += 1
        want = "accept" if a else "reject"
        wire = b"GET / HTTP/1.1\r\n" + h + b"\r\n\r\n"
        got = impl_head(wire)
        dist[got if got in dist else "other"] += 1
        if want == "accept":
            nontrivial.add(("hdr", h))
        if got != want:
            disagree("header-line", h, wire, want, got)

    # header lines that reach the gate through obs-fold joining: a continuation
    # line carrying a bare CR / LF must be refused like any other line
    for first in (b"X: a", b"Content-Length:", b"X:"):
        for lead in (b" ", b"\t"):
            for cont in (b"b", b"4", b""):
                for bad in (b"\n", b"\r", b"\nq", b"x\ny", b"\r\t"):
                    evaluations += 1
                    wire = b"GET / HTTP/1.1\r\n" + first + b"\r\n" + lead + cont + bad + b"\r\n\r\n"
                    got = impl_head(wire)
                    dist[got if got in dist else "other"] += 1
                    if got != "reject":
                        disagree("header-line-folded", first + b"|" + lead + cont + bad, wire, "reject", got)
                # control: the same continuation without the bare CR/LF is a valid obs-fold
                evaluations += 1
                ok_cont = b"4" if first.startswith(b"Content-Length") else (cont or b"z")
                wire = b"GET / HTTP/1.1\r\n" + first + b"\r\n" + lead + ok_cont + b"\r\n\r\n"
                got = impl_head(wire)
                if got != "accept":
                    disagree("header-line-folded", first + b"|" + lead + ok_cont, wire, "accept", got)
                else:
                    nontrivial.add(("fold", wire))

    # request line
    rls = [r for r in strings_for(GATE_ALPHABETS["gate_request_line"], rng, ctx.tier)
           if r and b"\r\n" not in r]
    for m in (b"GET", b"P-1", b"get"):
        for t in (b"/", b"*", b"http://h:80/p?q#f", b"/a b", b"/\t", b"h:1"):
            for v in (b"", b" HTTP/1.1", b" HTTP/1.0", b" HTTP/2.0", b" HTTP/1.", b" HTTP/11", b" http/1.1", b"  HTTP/1.1"):
                base = m + b" " + t + v
                rls.append(base)
                for w in (b" ", b"\t", b"\x0b", b"\n", b"\x0c", b"\r"):
                    rls.append(base + w)
                    rls.append(w + base)
    ok_r = spec("spec_request_line", rls)
    ok_r_stripped = spec("spec_request_line", [r.strip(PYWS) for r in rls])
    for r, a, a2 in zip(rls, ok_r, ok_r_stripped):
        evaluations += 1
        want = "accept" if a else "reject"
        wire = r + b"\r\n\r\n"
        # split_uri refuses non-ASCII targets ("Bad URI") after the request-line
        # gate has accepted the line; that refusal is not the gate's (see C01/C07)
        got = impl_head(wire, past_gate=("Bad URI",))
        if got == "empty":
            # nothing but whitespace: no request line at all -- outside C10
            continue
        dist[got if got in dist else "other"] += 1
        if want == "accept":
            nontrivial.add(("rl", r))
        if got != want:
            kf = None
            if r != r.strip(PYWS) and got == "accept" and want == "reject" and a2:
                kf = "kf_c10_reqline_ws"
            elif r != r.strip(PYWS) and got == "reject" and want == "accept":
                # e.g. "GET \t": the trailing HTAB is stripped before the gate;
                # same cause, opposite direction
                kf = "kf_c10_reqline_ws"
            disagree("request-line", r, wire, want, got, kf)
    ctx.oblige("K-callsite: real receiver/parser verdict on single lines equals the grammar (outside open known-finding classes)", site_ok)

    # the call-site theorems are about Model/Receiver.v and Model/Parser.v: check the
    # models against the real classes (K-chanseq), a slice of the full suite run by C01/C02
    from harness import parser_corr
    ctx.build(["Model/ChanSeq.vo"])
    prunner = ctx.runner("parser", "ExtParser.v")
    if prunner is None:
        ctx.oblige("K-chanseq: extracted parser/receiver models build", False)
    else:
        import random as _r
        cases = parser_corr.build_cases(_r.Random(ctx.seed + 10), 60 if ctx.tier == "quick" else 600, small_atoms=1)
        stats, bad = parser_corr.run_cases(prunner, cases)
        evaluations += stats["evaluations"]
        ctx.coverage["k_chanseq"] = {k: stats[k] for k in ("evaluations", "reads", "requests_completed", "errors", "unmodelled")}
        if bad:
            d = parser_corr.shrink(prunner, bad[0])
            ctx.report("kchanseq:" + "".join(d["reads"])[:60],
                       "Model/Parser.v / Receiver.v disagree with the real parser (the call-site theorems no longer speak for the code)",
                       {"failing_input_found": False, "correspondence": "K-chanseq", "case": d})
        ctx.oblige("K-chanseq: Receiver/Parser/ChanSeq models agree with the real classes on every generated stream", not bad)

    # search when a proof obligation broke: shortest distinguishing string from
    # the verified derivative construction, replayed on the real call site
    if not props_ok:
        found = False
        for gate, specname in SPEC_OF.items():
            w = runner.query(["w %s %s" % (gate, specname)])[0]
            if w in ("none",) or w.startswith("ERR"):
                continue
            s = vcommon.unhexb(w)
            in_spec = spec(specname, [s])[0]
            if gate in ("gate_chunk_size", "gate_chunk_ext"):
                line = s if gate == "gate_chunk_size" else b"1" + s
                if b"\r\n" in line or (gate == "gate_chunk_ext" and not s.startswith(b";")):
                    continue
                got = impl_chunk_line(line)
                wire = line + b"\r\n"
            elif gate == "gate_content_length":
                if b"\r" in s or b"\n" in s:
                    continue
                wire = b"GET / HTTP/1.1\r\nContent-Length:" + s + b"\r\n\r\n"
                got = impl_head(wire)
            elif gate == "gate_header_field":
                if b"\r" in s or b"\n" in s:
                    continue
                wire = b"GET / HTTP/1.1\r\n" + s + b"\r\n\r\n"
                got = impl_head(wire)
            else:
                if b"\r" in s or b"\n" in s:
                    continue
                wire = s + b"\r\n\r\n"
                got = impl_head(wire)
            want = "accept" if in_spec else "reject"
            if got != want:
                found = True
                ctx.report("witness:%s:%s" % (gate, s.hex()),
                           "theorem over %s no longer holds; shortest distinguishing string %r: grammar %s, implementation %s" % (gate, s, want, got),
                           {"site": gate, "input_hex": s.hex(), "wire_hex": wire.hex(), "expected": want,
                            "observed": got, "failing_input_found": True, "broken_theorems": "Props/C10.v"})
        if not found and not ctx.violations:
            ctx.report("c10-proof-broken", "Props/C10.v no longer checks (%s)" % failing,
                       {"failing_input_found": False, "broken": "Props/C10.v via %s" % failing,
                        "log_tail": (log or "")[-1500:]})

    ctx.coverage.update({
        "evaluations": evaluations,
        "distinct_nontrivial": len(nontrivial),
        "rule": "per gate: all strings up to length %d over a boundary alphabet plus random strings of length 4..40; non-trivial = distinct (site,string) accepted by the grammar" % (3 if ctx.tier == "quick" else 4),
        "samples": samples,
        "callsite_verdict_distribution": dist,
    })


def replay(data):
    wire = bytes.fromhex(data["wire_hex"])
    site = data.get("site", "")
    if site in ("chunk-line", "gate_chunk_size", "gate_chunk_ext"):
        got = impl_chunk_line(wire[:-2])
    else:
        got = impl_head(wire)
    print("site=%s wire=%r expected=%s observed_now=%s" % (site, wire, data.get("expected"), got))
    return 0 if got == data.get("expected") else 1
