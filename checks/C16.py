"""C16 -- trusted proxy headers: only trusted kinds, only trusted hops, never a crash.

Decided by: Coq theorems (Props/C16.v) about the executable model of
parse_proxy_headers / undquote / strip_brackets (Model/Proxy.v; the
quoted-string patterns are the terms regenerated from the source on this run):
totality (no exception escapes for any header value), the hop indexing law
for every list length and count, pruning and per-kind non-interference as
two-run theorems, the 400 categories (including the empty host and the empty
client address, former findings F20 / F19).  Tied to the code by K-proxy (real middleware against
the extracted model: whole environ / 400 header / exception class) and
searched with the executable specification (Spec/ProxySpec.v, validated
against its extraction on every argument used) directly on the real
middleware."""
from harness import proxy as P

LEVEL = "proof"
ASSUMPTIONS = [
    "header values are latin-1 decoded text (code points < 256); environ values are str",
    "the environ has REMOTE_ADDR and wsgi.url_scheme (task.get_environment always sets them); without them the middleware raises KeyError (modelled, outside the totality statement)",
    "logging calls are not modelled; CPython re applied to QUOTED_STRING_RE / QUOTED_PAIR_RE is represented by the language of the generated term (K-regex of C10, and the undquote stream here)",
    "trusted_proxy_count >= 1 in the hop / pruning theorems (Adjustments accepts any int; 0 and negative counts are modelled with Python slice semantics and covered by K-proxy only)",
]

def run(ctx):
    ctx.translate({"GenRegex"})
    ctx.gate()
    props_ok, failing, log = ctx.props()
    ctx.build(["Model/Proxy.vo", "Spec/ProxySpec.vo"])
    runner = ctx.runner("proxy", "ExtProxy.v")
    if runner is None:
        ctx.oblige("extracted proxy model builds", False, "see notes")
        return
    rng = ctx.rng
    quick = ctx.tier == "quick"
    evaluations = 0
    nontrivial = set()
    samples = []

    nprim, prim_ok = P.run_prims(ctx, runner)
    evaluations += nprim
    ctx.oblige("K-proxy/prim: undquote, strip_brackets, slicing and strip of the model agree with the real functions / CPython", prim_ok)

    # ---- K-proxy
    cases = P.exhaustive_small(ctx.tier) + P.hop_law_cases(ctx.tier)
    n_struct = len(cases)
    cases += [P.gen_case(rng, "trusted") for _ in range(14000 if quick else 250000)]
    mism, dist, reals = P.compare_model(runner, cases, log_rng=rng)
    evaluations += len(cases)
    P.report_model_mismatches(ctx, mism, "middleware")
    ctx.oblige("K-proxy: model agrees with the real middleware on every generated case (whole environ / 400 header / exception class)", not mism,
               "%d mismatches" % len(mism))

    # the application as wrapped by the real server constructor, trusted peers
    srv_ok = True
    n_srv = 0
    for kw in ({"trusted_proxy": P.PEER, "trusted_proxy_headers": {"forwarded"}, "trusted_proxy_count": 2},
               {"trusted_proxy": "*", "trusted_proxy_headers": {"x-forwarded-for", "x-forwarded-host", "x-forwarded-proto", "x-forwarded-port"}},
               {"trusted_proxy": P.PEER, "clear_untrusted_proxy_headers": False, "trusted_proxy_headers": {"x-forwarded-for", "x-forwarded-by"}, "trusted_proxy_count": 3},
               {"trusted_proxy": P.PEER}):
        srv = P.RealServerApp(**kw)
        try:
            ecases = []
            for _ in range(300 if quick else 5000):
                env, _c = P.gen_case(rng, "trusted")
                ecases.append((env, srv.cfg))
            mm, _d, _r = P.compare_model(runner, ecases, cmd="sv", real_fn=lambda e, c: srv.run(e))
            evaluations += len(ecases)
            n_srv += len(ecases)
            if mm:
                srv_ok = False
                P.report_model_mismatches(ctx, mm, "server.application")
        finally:
            srv.close()
    ctx.oblige("K-proxy/server: the application as wrapped by create_server agrees with the model's serve (trusted peers)", srv_ok)

    # ---- histories: many requests through the SAME middleware instance (the model is stateless)
    nh, hm, _tw = P.history_stream(runner, rng, 25 if quick else 400, 12, "trusted")
    evaluations += nh
    for env, cfg, r, m, pos in hm[:10]:
        d = P.describe(env, cfg)
        d.update({"kind": "model", "entry": "request %d through the same middleware instance" % pos,
                  "expected": P.res_json(m), "observed": P.res_json(r), "failing_input_found": True,
                  "note": "only reproduces as a LATER request of one middleware instance (state kept between requests)"})
        ctx.report("history:" + P.case_key(env, cfg)[:12], "the middleware's answer depends on earlier requests (request %d of an instance): implementation %s ; model %s" % (pos, P.short(r), P.short(m)), d)
    ctx.oblige("K-proxy/history: every request of a history through one middleware instance equals the stateless model", not hm, "%d requests" % nh)

    # ---- search: the specification against the real middleware
    spec = P.Spec()
    spec_ok = True
    n_spec = 0
    verdicts = P.Counter()
    lens = P.Counter()
    counts = P.Counter()
    tph_dist = P.Counter()
    eligible = []
    for (env, cfg), real in zip(cases, reals):
        if not (P.is_trusted_path(env, cfg) and cfg.count >= 1 and P.allowed_tph(cfg.tph) and "wsgi.url_scheme" in env):
            continue
        n_spec += 1
        evaluations += 1
        tph = cfg.tph or frozenset()
        present = [k for k in tph if P.KIND_KEY[k] in env]
        if present:
            nontrivial.add(P.case_key(env, cfg))
        counts[cfg.count] += 1
        tph_dist["forwarded" if "forwarded" in tph else ("x-forwarded:%d" % len(tph))] += 1
        for k in ("HTTP_X_FORWARDED_FOR", "HTTP_X_FORWARDED_HOST", "HTTP_FORWARDED"):
            if k in env:
                lens[len(env[k].split(","))] += 1
        v, detail = P.c16_spec_eval(spec, env, cfg, real)
        eligible.append((env, cfg, real))
        if v == "pass":
            verdicts["400:" + detail if detail != "ok" else "accepted"] += 1
            if detail == "ok" and len(samples) < 3 and len(present) >= 2:
                samples.append({"config": P.cfg_json(cfg), "proxy_headers": {k: env[k] for k in P.PROXY_KEYS if k in env},
                                "outcome": P.short(real)})
            continue
        spec_ok = False
        verdicts["FAIL"] += 1
        d = P.describe(env, cfg)
        d.update({"kind": "spec", "expected": "C16: " + detail.split(", implementation")[0], "observed": P.short(real),
                  "failing_input_found": True})
        ctx.report("spec:%s" % detail[:60], "C16 violated on the real middleware: " + detail, d)
    ctx.oblige("S-spec: real middleware, trusted peer: never an exception, the 400 categories (incl. empty host / empty client address) give 400, the k-th hop from the right is used, forwarded headers pruned to the trusted suffix, untrusted kinds stripped / left alone", spec_ok)

    # ---- search: per-kind non-interference and pruning, as two runs of the real middleware
    kinds_ok = True
    n_kinds = 0
    prune_ok = True
    n_prune = 0
    step = 2 if quick else 1
    for env, cfg, real in eligible[::step]:
        tph = cfg.tph or frozenset()
        unt = [k for k in P.KIND_KEY if k not in tph]
        if unt:
            kind = rng.choice(unt)
            key = P.KIND_KEY[kind]
            r = rng.random()
            if r < 0.2:
                nv = None
            elif r < 0.5:
                nv = P.fuzz(rng)
            else:
                e_tmp = {}
                P.gen_headers(rng, e_tmp, 0.3, which=[kind])
                nv = e_tmp.get(key, rng.choice(P.XFF_DEGEN))
            fails = P.kinds_eval(env, cfg, key, nv)
            n_kinds += 1
            evaluations += 2
            if fails:
                kinds_ok = False
                d = P.describe(env, cfg)
                d.update({"kind": "kinds", "key": key, "new_value_hex": None if nv is None else P.hx(nv),
                          "expected": "no influence of the untrusted kind", "observed": fails[:4], "failing_input_found": True})
                ctx.report("kinds:" + fails[0][:50], "untrusted header kind influences the result: " + fails[0], d)
        if real[0] == "ok":
            keys = ["HTTP_FORWARDED"] if "forwarded" in tph else \
                [P.KIND_KEY[k] for k in ("x-forwarded-for", "x-forwarded-host") if k in tph]
            for key in keys:
                env2 = P.prune_variant(rng, env, cfg, key)
                if env2 is None:
                    continue
                ap, fails = P.prune_eval(env, env2, cfg)
                evaluations += 2
                if ap:
                    n_prune += 1
                if fails:
                    prune_ok = False
                    d = P.describe(env, cfg)
                    d.update({"kind": "prune", "environ2_hex": P.env_json(env2), "key": key,
                              "expected": "same environ for the same trusted suffix", "observed": fails[:4],
                              "failing_input_found": True})
                    ctx.report("prune:" + fails[0][:50], "hops left of the trusted suffix influence the environ: " + fails[0], d)
    ctx.oblige("S-kinds: real middleware run twice, an untrusted kind's value changed: same outcome, same environ elsewhere, removed when clearing is on", kinds_ok)
    ctx.oblige("S-prune: real middleware run twice, the hops left of the trusted suffix replaced: same environ", prune_ok)

    nval, bad = spec.validate(runner)
    evaluations += nval
    for fn, arg, want, got in bad[:5]:
        ctx.notes.append("K-spec mismatch: %s %r python=%s coq=%s" % (fn, arg, want, got))
        ctx.report("kspec:%s" % fn, "harness specification function %s disagrees with the extracted Coq definition on %r" % (fn, arg),
                   {"kind": "prim", "query": "%s %r" % (fn, arg), "expected": got, "observed": want, "failing_input_found": True})
    ctx.oblige("K-spec: the specification functions used by the search equal the extracted Spec/ProxySpec.v definitions on every argument used", not bad,
               "%d arguments" % nval)

    if not props_ok and not ctx.violations:
        ctx.report("c16-proof-broken", "Props/C16.v no longer checks (%s)" % failing,
                   {"failing_input_found": False, "broken": "Props/C16.v via %s" % failing, "log_tail": (log or "")[-1500:]})

    ctx.coverage.update({
        "evaluations": evaluations,
        "distinct_nontrivial": len(nontrivial),
        "rule": "generated (environ, configuration) pairs: every degenerate element alone / after / before a valid one, all (n,k) in a box for the hop law, plus random header grammars; non-trivial = distinct cases of a trusted peer with count >= 1, an allowed set of trusted kinds and at least one trusted header present",
        "samples": samples,
        "model_vs_real_cases": len(cases),
        "structured_cases": n_struct,
        "server_wrapper_cases": n_srv,
        "history_requests": nh,
        "real_outcome_distribution": dict(dist),
        "spec_cases": n_spec,
        "spec_verdicts": dict(verdicts),
        "list_length_distribution": {str(k): v for k, v in sorted(lens.items())},
        "trusted_proxy_count_distribution": {str(k): v for k, v in sorted(counts.items())},
        "trusted_kinds_distribution": dict(tph_dist),
        "kinds_two_run_cases": n_kinds,
        "prune_two_run_cases": n_prune,
        "spec_function_arguments_validated": nval,
        "primitive_cases": nprim,
    })


def replay(data):
    return P.replay_common(data)
