"""C16 -- trusted proxy headers: only trusted kinds, only trusted hops, never a crash.

Decided by: Coq theorems (Props/C16.v) about the executable model of
parse_proxy_headers / undquote / strip_brackets (Model/Proxy.v; the
quoted-string patterns are the terms regenerated from the source on this run):
totality (no exception escapes for any header value), the hop indexing law
for every list length and count, pruning and per-kind non-interference as
two-run theorems, the 400 categories (including the empty host and the empty
client address, former findings F20 / F19).  Tied to the code by K-proxy (real middleware against
the extracted model: whole environ / 400 header / exception class) and
searched with the executable specification (Spec/ProxySpec.v, validated
against its extraction on every argument used) directly on the real
middleware.

Extension: the exact characterisation (C16_trusted_exact: refused iff
refusal_reason finds a category, with the header named; otherwise the environ
is spec_out on every key, including the HTTP_HOST port formatting), tied to the
code by S-fspec: the functional specification extracted ON ITS OWN
(ocaml/proxyfs, no model code) against the real middleware on every key, on
generators forced by the proofs' hypotheses (per-element omitted parameters,
mixed-case names, escapes, bracketed IPv6 with ports, empty members, OWS, very
long lists, counts 1..5 below/at/above the length); S-wf: headers drawn from
the grammar Spec.wf_headers are accepted; S-config: the real Adjustments on
every subset of trusted_proxy_headers in mixed-case spellings against the
documented exclusivity rule."""
from harness import proxy as P

LEVEL = "proof"
ASSUMPTIONS = [
    "header values are latin-1 decoded text (code points < 256); environ values are str",
    "the environ has REMOTE_ADDR and wsgi.url_scheme (task.get_environment always sets them); without them the middleware raises KeyError (modelled, outside the totality statement)",
    "logging calls are not modelled; CPython re applied to QUOTED_STRING_RE / QUOTED_PAIR_RE is represented by the language of the generated term (K-regex of C10, and the undquote stream here)",
    "trusted_proxy_count >= 1 in the hop / pruning theorems (Adjustments accepts any int; 0 and negative counts are modelled with Python slice semantics and covered by K-proxy only)",
]

def run(ctx):
    ctx.translate({"GenRegex"})
    ctx.gate()
    props_ok, failing, log = ctx.props()
    ctx.build(["Model/Proxy.vo", "Spec/ProxySpec.vo"])
    runner = ctx.runner("proxy", "ExtProxy.v")
    if runner is None:
        ctx.oblige("extracted proxy model builds", False, "see notes")
        return
    fs_runner = ctx.runner("proxyfs", "ExtProxyfs.v")
    if fs_runner is None:
        ctx.oblige("extracted functional specification (Spec/ProxySpec.v) builds", False, "see notes")
        return
    rng = ctx.rng
    quick = ctx.tier == "quick"
    evaluations = 0
    nontrivial = set()
    samples = []

    nprim, prim_ok = P.run_prims(ctx, runner)
    evaluations += nprim
    ctx.oblige("K-proxy/prim: undquote, strip_brackets, slicing and strip of the model agree with the real functions / CPython", prim_ok)

    # ---- K-lower: case mapping / strip set / quoted-string reading on all 256 latin-1 code points
    n_tab, tab_bad = P.latin1_prim_tables(runner, fs_runner)
    evaluations += n_tab
    for who, q, e, g in tab_bad[:5]:
        ctx.report("latin1:" + q[:40], "%s primitive disagrees with CPython / waitress.utilities on latin-1 text: %s expected %s, got %s" % (who, q, e, g),
                   {"kind": "prim", "query": q, "expected": e, "observed": g, "failing_input_found": True})
    ctx.oblige("K-lower: lower_latin1 = str.lower, strip = str.strip and the quoted-string reading = undquote on every one of the 256 latin-1 code points (alone, embedded, doubled, quoted, escaped), for the model and for the specification", not tab_bad,
               "%d table entries" % n_tab)

    # ---- K-proxy
    cases = P.exhaustive_small(ctx.tier) + P.hop_law_cases(ctx.tier)
    n_struct = len(cases)
    ext = P.ext_cases(rng, ctx.tier)
    lat = P.latin1_cases(ctx.tier)
    n_lat = len(lat)
    ext += lat
    n_ext = len(ext)
    cases += ext
    cases += [P.gen_case(rng, "trusted") for _ in range(14000 if quick else 250000)]
    mism, dist, reals = P.compare_model(runner, cases, log_rng=rng)
    evaluations += len(cases)
    P.report_model_mismatches(ctx, mism, "middleware")
    ctx.oblige("K-proxy: model agrees with the real middleware on every generated case (whole environ / 400 header / exception class)", not mism,
               "%d mismatches" % len(mism))

    # the application as wrapped by the real server constructor, trusted peers
    srv_ok = True
    n_srv = 0
    for kw in ({"trusted_proxy": P.PEER, "trusted_proxy_headers": {"forwarded"}, "trusted_proxy_count": 2},
               {"trusted_proxy": "*", "trusted_proxy_headers": {"x-forwarded-for", "x-forwarded-host", "x-forwarded-proto", "x-forwarded-port"}},
               {"trusted_proxy": P.PEER, "clear_untrusted_proxy_headers": False, "trusted_proxy_headers": {"x-forwarded-for", "x-forwarded-by"}, "trusted_proxy_count": 3},
               {"trusted_proxy": P.PEER}):
        srv = P.RealServerApp(**kw)
        try:
            ecases = []
            for _ in range(300 if quick else 5000):
                env, _c = P.gen_case(rng, "trusted")
                ecases.append((env, srv.cfg))
            mm, _d, _r = P.compare_model(runner, ecases, cmd="sv", real_fn=lambda e, c: srv.run(e))
            evaluations += len(ecases)
            n_srv += len(ecases)
            if mm:
                srv_ok = False
                P.report_model_mismatches(ctx, mm, "server.application")
        finally:
            srv.close()
    ctx.oblige("K-proxy/server: the application as wrapped by create_server agrees with the model's serve (trusted peers)", srv_ok)

    # ---- histories: many requests through the SAME middleware instance (the model is stateless)
    nh, hm, _tw = P.history_stream(runner, rng, 25 if quick else 400, 12, "trusted")
    evaluations += nh
    for env, cfg, r, m, pos in hm[:10]:
        d = P.describe(env, cfg)
        d.update({"kind": "model", "entry": "request %d through the same middleware instance" % pos,
                  "expected": P.res_json(m), "observed": P.res_json(r), "failing_input_found": True,
                  "note": "only reproduces as a LATER request of one middleware instance (state kept between requests)"})
        ctx.report("history:" + P.case_key(env, cfg)[:12], "the middleware's answer depends on earlier requests (request %d of an instance): implementation %s ; model %s" % (pos, P.short(r), P.short(m)), d)
    ctx.oblige("K-proxy/history: every request of a history through one middleware instance equals the stateless model", not hm, "%d requests" % nh)

    # ---- search: the specification against the real middleware
    spec = P.Spec()
    spec_ok = True
    n_spec = 0
    verdicts = P.Counter()
    lens = P.Counter()
    counts = P.Counter()
    tph_dist = P.Counter()
    eligible = []
    for idx, ((env, cfg), real) in enumerate(zip(cases, reals)):
        if not (P.is_trusted_path(env, cfg) and cfg.count >= 1 and P.allowed_tph(cfg.tph) and "wsgi.url_scheme" in env):
            continue
        if n_struct <= idx < n_struct + n_ext:
            # the extension's cases are judged by the exact specification (S-fspec below); the
            # "left hop appears nowhere" test of this older search is a substring heuristic and the
            # extension's vocabulary has hops that are substrings of other hops (192.0.2.3 / 192.0.2.35).
            # They still take part in the exact two-run searches (S-kinds, S-prune).
            eligible.append((env, cfg, real))
            continue
        n_spec += 1
        evaluations += 1
        tph = cfg.tph or frozenset()
        present = [k for k in tph if P.KIND_KEY[k] in env]
        if present:
            nontrivial.add(P.case_key(env, cfg))
        counts[cfg.count] += 1
        tph_dist["forwarded" if "forwarded" in tph else ("x-forwarded:%d" % len(tph))] += 1
        for k in ("HTTP_X_FORWARDED_FOR", "HTTP_X_FORWARDED_HOST", "HTTP_FORWARDED"):
            if k in env:
                lens[len(env[k].split(","))] += 1
        v, detail = P.c16_spec_eval(spec, env, cfg, real)
        eligible.append((env, cfg, real))
        if v == "pass":
            verdicts["400:" + detail if detail != "ok" else "accepted"] += 1
            if detail == "ok" and len(samples) < 3 and len(present) >= 2:
                samples.append({"config": P.cfg_json(cfg), "proxy_headers": {k: env[k] for k in P.PROXY_KEYS if k in env},
                                "outcome": P.short(real)})
            continue
        spec_ok = False
        verdicts["FAIL"] += 1
        d = P.describe(env, cfg)
        d.update({"kind": "spec", "expected": "C16: " + detail.split(", implementation")[0], "observed": P.short(real),
                  "failing_input_found": True})
        ctx.report("spec:%s" % detail[:60], "C16 violated on the real middleware: " + detail, d)
    ctx.oblige("S-spec: real middleware, trusted peer: never an exception, the 400 categories (incl. empty host / empty client address) give 400, the k-th hop from the right is used, forwarded headers pruned to the trusted suffix, untrusted kinds stripped / left alone", spec_ok)

    # ---- search: per-kind non-interference and pruning, as two runs of the real middleware
    kinds_ok = True
    n_kinds = 0
    prune_ok = True
    n_prune = 0
    step = 2 if quick else 1
    for env, cfg, real in eligible[::step]:
        tph = cfg.tph or frozenset()
        unt = [k for k in P.KIND_KEY if k not in tph]
        if unt:
            kind = rng.choice(unt)
            key = P.KIND_KEY[kind]
            r = rng.random()
            if r < 0.2:
                nv = None
            elif r < 0.5:
                nv = P.fuzz(rng)
            else:
                e_tmp = {}
                P.gen_headers(rng, e_tmp, 0.3, which=[kind])
                nv = e_tmp.get(key, rng.choice(P.XFF_DEGEN))
            fails = P.kinds_eval(env, cfg, key, nv)
            n_kinds += 1
            evaluations += 2
            if fails:
                kinds_ok = False
                d = P.describe(env, cfg)
                d.update({"kind": "kinds", "key": key, "new_value_hex": None if nv is None else P.hx(nv),
                          "expected": "no influence of the untrusted kind", "observed": fails[:4], "failing_input_found": True})
                ctx.report("kinds:" + fails[0][:50], "untrusted header kind influences the result: " + fails[0], d)
        if real[0] == "ok":
            keys = ["HTTP_FORWARDED"] if "forwarded" in tph else \
                [P.KIND_KEY[k] for k in ("x-forwarded-for", "x-forwarded-host") if k in tph]
            for key in keys:
                env2 = P.prune_variant(rng, env, cfg, key)
                if env2 is None:
                    continue
                ap, fails = P.prune_eval(env, env2, cfg)
                evaluations += 2
                if ap:
                    n_prune += 1
                if fails:
                    prune_ok = False
                    d = P.describe(env, cfg)
                    d.update({"kind": "prune", "environ2_hex": P.env_json(env2), "key": key,
                              "expected": "same environ for the same trusted suffix", "observed": fails[:4],
                              "failing_input_found": True})
                    ctx.report("prune:" + fails[0][:50], "hops left of the trusted suffix influence the environ: " + fails[0], d)
    ctx.oblige("S-kinds: real middleware run twice, an untrusted kind's value changed: same outcome, same environ elsewhere, removed when clearing is on", kinds_ok)
    ctx.oblige("S-prune: real middleware run twice, the hops left of the trusted suffix replaced: same environ", prune_ok)

    # ---- S-fspec: the extracted functional specification against the real middleware, every key
    fs_cases = [(env, cfg) for (env, cfg) in cases if P.fspec_eligible(env, cfg)]
    fs_reals = [real for (env, cfg), real in zip(cases, reals) if P.fspec_eligible(env, cfg)]
    wf_cases = [P.gen_wf_case(rng) for _ in range(1500 if quick else 30000)]
    fs_cases += wf_cases
    fs_reals += [P.real_middleware(env, cfg) for env, cfg in wf_cases]
    fs_ans = P.fspec_batch(fs_runner, fs_cases)
    evaluations += len(fs_cases)
    fs_ok = True
    wf_ok = True
    fs_dist = P.Counter()
    n_wf = 0
    n_wf_headers = 0
    fs_nontrivial = set()
    n_rep = 0
    for (env, cfg), real, ans in zip(fs_cases, fs_reals, fs_ans):
        fs_dist["accepted" if ans[0] == "ok" else "400:" + str(ans[1])] += 1
        wf = ans[3] if ans[0] == "mal" else (ans[1] if ans[0] == "ok" else False)
        tphs = cfg.tph or frozenset()
        if any(P.KIND_KEY[k] in env for k in tphs if k in P.KIND_KEY):
            fs_nontrivial.add(P.case_key(env, cfg))
        diff = P.fspec_compare(real, ans)
        if diff:
            fs_ok = False
            if n_rep < 20:
                n_rep += 1
                d = P.describe(env, cfg)
                d.update({"kind": "fspec", "expected_spec": P.fspec_expected_json(ans), "expected": "C16_trusted_exact / Spec.spec_out: " + diff.split("; implementation")[0][:300],
                          "observed": P.short(real), "failing_input_found": True})
                ctx.report("fspec:" + P.case_key(env, cfg)[:12], "real middleware differs from the functional specification (Spec/ProxySpec.v refusal_reason / spec_out): " + diff, d)
        if wf:
            n_wf += 1
            if any(P.KIND_KEY[k] in env for k in tphs if k in P.KIND_KEY):
                n_wf_headers += 1
            if real[0] != "ok":
                wf_ok = False
                d = P.describe(env, cfg)
                d.update({"kind": "fspec", "expected_spec": P.fspec_expected_json(ans), "expected": "well-formed proxy headers (Spec.wf_headers) are accepted",
                          "observed": P.short(real), "failing_input_found": True})
                ctx.report("wf:" + P.case_key(env, cfg)[:12], "well-formed proxy headers refused: " + P.short(real), d)
    nontrivial |= fs_nontrivial
    ctx.oblige("S-fspec: the functional specification extracted on its own (refusal_reason, category_header, spec_out) equals the real middleware: same 400 header, same value on every key of the environ", fs_ok,
               "%d cases" % len(fs_cases))
    ctx.oblige("S-wf: every generated header set that is well-formed by Spec.wf_headers is accepted by the real middleware", wf_ok and n_wf_headers > 0,
               "%d well-formed (%d with a trusted header present)" % (n_wf, n_wf_headers))

    # ---- S-config: trusted_proxy_headers validation by the real Adjustments, mixed-case spellings of every subset
    cfg_cases = P.tph_config_cases(rng, ctx.tier)
    cfg_ok = True
    cfg_dist = P.Counter()
    n_cfg_req = 0
    for i, (names, form, value) in enumerate(cfg_cases):
        ok, exp, got = P.tph_config_eval(names, form, value)
        evaluations += 1
        cfg_dist[exp[0] + ("" if exp[0] == "accepted" else ":" + exp[1])] += 1
        fails = []
        if not ok:
            fails.append("Adjustments(trusted_proxy_headers=%r): expected %s, observed %s" % (
                value if isinstance(value, str) else sorted(value), exp[0] + (" " + str(sorted(exp[1])) if exp[0] == "accepted" else " (" + exp[1] + ")"),
                got[0] + (" " + str(sorted(got[1])) if got[0] == "accepted" else "")))
        elif exp[0] == "accepted" and (quick and i % 5 == 0 or not quick):
            fails = P.tph_config_request_eval(names, value)
            n_cfg_req += 1
            evaluations += 1
        if fails:
            cfg_ok = False
            ctx.report("config:" + ",".join(sorted(n.lower() for n in names))[:60],
                       "trusted_proxy_headers validation departs from the documented rule (names case-insensitive; Forwarded and X-Forwarded-* mutually exclusive): " + fails[0],
                       {"kind": "tphcfg", "names": list(names), "form": form, "value": value if isinstance(value, str) else sorted(value),
                        "value_is_str": isinstance(value, str),
                        "expected": exp[0] + (" " + str(sorted(exp[1])) if exp[0] == "accepted" else " (" + exp[1] + ")"),
                        "observed": fails[:3], "failing_input_found": True})
    ctx.oblige("S-config: real Adjustments on every subset of the six kinds in lower/Title/UPPER/mixed spellings and set/list/str forms: refused iff unknown or Forwarded together with an X-Forwarded-* kind; accepted sets reach the middleware lower-cased and exactly the listed kinds survive a request", cfg_ok,
               "%d configurations, %d requests" % (len(cfg_cases), n_cfg_req))

    nval, bad = spec.validate(runner)
    evaluations += nval
    for fn, arg, want, got in bad[:5]:
        ctx.notes.append("K-spec mismatch: %s %r python=%s coq=%s" % (fn, arg, want, got))
        ctx.report("kspec:%s" % fn, "harness specification function %s disagrees with the extracted Coq definition on %r" % (fn, arg),
                   {"kind": "prim", "query": "%s %r" % (fn, arg), "expected": got, "observed": want, "failing_input_found": True})
    ctx.oblige("K-spec: the specification functions used by the search equal the extracted Spec/ProxySpec.v definitions on every argument used", not bad,
               "%d arguments" % nval)

    if not props_ok and not ctx.violations:
        ctx.report("c16-proof-broken", "Props/C16.v no longer checks (%s)" % failing,
                   {"failing_input_found": False, "broken": "Props/C16.v via %s" % failing, "log_tail": (log or "")[-1500:]})

    ctx.coverage.update({
        "evaluations": evaluations,
        "distinct_nontrivial": len(nontrivial),
        "rule": "generated (environ, configuration) pairs: every degenerate element alone / after / before a valid one, all (n,k) in a box for the hop law, presence masks of Forwarded parameters per element, grammar-driven values (escapes, bracketed IPv6 with ports, empty members, OWS, lists up to 257 / 3000 elements, counts 1..5), values drawn from Spec.wf_headers, every special latin-1 code point (b5 df ff aa ba 85 a0 1c-1f b2 b3 b9 ...) in every field quoted/unquoted at start/middle/end and every code point 1..255 in a for= identifier / host, plus random header grammars (12% of all values get special code points sprinkled in); non-trivial = distinct cases of a trusted peer with count >= 1, an allowed set of trusted kinds and at least one trusted header present",
        "samples": samples,
        "model_vs_real_cases": len(cases),
        "structured_cases": n_struct,
        "extension_cases": n_ext,
        "latin1_systematic_cases": n_lat,
        "latin1_table_entries": n_tab,
        "special_code_points": [hex(ord(c)) for c in P.SPECIAL_BYTES],
        "fspec_cases": len(fs_cases),
        "fspec_outcome_distribution": dict(fs_dist),
        "wellformed_cases": n_wf,
        "wellformed_with_trusted_header": n_wf_headers,
        "config_cases": len(cfg_cases),
        "config_expected_distribution": dict(cfg_dist),
        "config_requests": n_cfg_req,
        "server_wrapper_cases": n_srv,
        "history_requests": nh,
        "real_outcome_distribution": dict(dist),
        "spec_cases": n_spec,
        "spec_verdicts": dict(verdicts),
        "list_length_distribution": {str(k): v for k, v in sorted(lens.items())},
        "trusted_proxy_count_distribution": {str(k): v for k, v in sorted(counts.items())},
        "trusted_kinds_distribution": dict(tph_dist),
        "kinds_two_run_cases": n_kinds,
        "prune_two_run_cases": n_prune,
        "spec_function_arguments_validated": nval,
        "primitive_cases": nprim,
    })


def replay(data):
    if data.get("kind") == "fspec":
        return P.fspec_replay(data)
    if data.get("kind") == "tphcfg":
        value = data["value"] if data.get("value_is_str") else set(data["value"])
        ok, exp, got = P.tph_config_eval(data["names"], data["form"], value)
        fails = [] if ok else ["expected %r, observed %r" % (exp, got)]
        if ok and exp[0] == "accepted":
            fails = P.tph_config_request_eval(data["names"], value)
        print("trusted_proxy_headers=%r\n %s" % (data["value"], fails or "follows the documented rule now"))
        return 1 if fails else 0
    return P.replay_common(data)
