"""C12 -- output buffering is bounded: fast producers are paused and always released.

Proof: coq/Props/C12.v over the narrow interleaving model coq/Model/ChanFlow.v
(all schedules, all lengths, high_watermark / send_bytes / lookahead / write sizes
universally quantified).  Tie: (1) ast shape audit of the modelled methods of
channel.py / wasyncore.dispatcher against harness.chanflow.EXPECTED_SHAPE; (2) the
REAL HTTPChannel + ThreadedTaskDispatcher + wasyncore.poll under the deterministic
scheduler, every labelled operation of every run followed by the extracted model
(ocaml/chanflow "follow") with the abstract state compared after each operation;
(3) the C12 monitors (bound / release / abort / order) on the same real runs -- the
search that yields the replay (scenario + schedule).
"""
import hashlib
import json
import os
import random
import re
import time

from lib import vcommon
from harness import chanflow as cf
from harness.sched import explore

LEVEL = "proof"
ASSUMPTIONS = [
    "the model covers ONE connection, select-based poll(), requests arriving whole; send_continue (100 Continue, F18/C04), cancel(), maintenance() and poll2 are not modelled",
    "Python attribute loads/stores are atomic and sequentially consistent (GIL); pre-emption inside C code / CPython containers is not represented",
    "a socket send is offered all pending bytes (superset of the real chunking by outbuf and SO_SNDBUF); in the MODEL buffers are counters (FIFO contents: C17): that the real OverflowableBuffer keeps len() == bytes appended - bytes removed across its bytes -> BytesIO -> tempfile migrations and rotations is checked on the real channel only (accounting / empty-send / left-over monitors and the per-operation comparison of the bytes held, with STRBUF_LIMIT, outbuf_overflow and outbuf_high_watermark shrunk in the 'migrate' family)",
    "release is stated as absence of bad idle states (I/O thread blocked in select, or spinning through no-op poll turns) -- no fairness, no timers: the 1 s select timeout of the real loop only re-runs the same no-op turn",
    "the theorems speak for the code as repaired by 6aba4bf / daf1a85 / 7fa6a60 (shape flags all true; pinned by the shape audit); 0 <= outbuf_high_watermark is assumed (a negative watermark is not a configuration)",
]

HEADER_BASE = 92   # len of the response head for a 1-digit Content-Length (fake clock pins Date)


def _h(o):
    return hashlib.sha1(json.dumps(o, sort_keys=True).encode()).hexdigest()[:12]


# ---------------------------------------------------------------------------
# scenario generators (all randomness from the given rng)

def gen_generic(rng):
    nreq = rng.choice([1, 1, 2, 2, 3])
    reqs = []
    for i in range(nreq):
        reqs.append({"chunks": [rng.choice([1, 10, 50, 51, 100]) for _ in range(rng.choice([1, 2, 2, 3]))],
                     "close": (i == nreq - 1 and rng.random() < 0.4)})
    script = [["send", i] for i in range(nreq)]
    for _ in range(rng.randrange(3)):
        pos = rng.randrange(len(script) + 1)
        script[pos:pos] = [["stall"], ["resume"]] if rng.random() < 0.7 else [["stall"]]
    if ["stall"] in script and ["resume"] not in script and rng.random() < 0.8:
        script.append(["resume"])
    if rng.random() < 0.35:
        script.append(["close"])
    plan = [rng.choice([None, None, None, 0, 1, 10, 35, 94, 200, ["err", cf.errno.EPIPE], ["err", cf.OTHER_ERRNO]])
            for _ in range(rng.randrange(7))]
    adj = {"outbuf_high_watermark": rng.choice([0, 1, 50, 94, 95, 96, 144, 145, 146, 200, 10 ** 6]),
           "send_bytes": rng.choice([0, 1, 95, 100, 146, 18000]),
           "channel_request_lookahead": rng.choice([0, 0, 1, 2])}
    return {"family": "generic", "adj": adj, "reqs": reqs, "script": script, "plan": plan,
            "workers": rng.choice([1, 1, 2])}


def gen_mark(rng):
    """the drain lands exactly on / next to the mark, then stops or fails"""
    chunks = [rng.choice([10, 50, 100]) for _ in range(rng.choice([2, 3]))]
    head = HEADER_BASE + len(str(sum(chunks)))
    cums = [head]
    for c in chunks:
        cums.append(cums[-1] + c)
    hw = max(0, rng.choice(cums[:-1]) + rng.choice([0, 0, 0, -1, 1]))
    sb = rng.choice([1, 1, max(1, hw), hw + 1, 1000])
    tail = rng.choice([[0], [0, 0, ["err", cf.OTHER_ERRNO]], [["err", cf.OTHER_ERRNO]], [["err", cf.errno.EPIPE]], [0, None], [None]])
    plan = [["mark", rng.choice([0, 0, 1, -1])]] + tail
    script = [["send", 0], ["stall"], ["resume"]]
    if rng.random() < 0.3:
        script.append(["close"])
    return {"family": "mark", "adj": {"outbuf_high_watermark": hw, "send_bytes": sb, "channel_request_lookahead": 0},
            "reqs": [{"chunks": chunks, "close": rng.random() < 0.3}], "script": script, "plan": plan, "workers": 1}


def gen_tail(rng):
    """pipelined keep-alive requests with lookahead: service() itself calls the watermark wait"""
    nreq = rng.choice([2, 2, 3])
    reqs = [{"chunks": [rng.choice([10, 50])], "close": False} for _ in range(nreq)]
    hw = rng.choice([0, 1, 10, 50, 94])
    script = [["send", i] for i in range(nreq)]
    if rng.random() < 0.5:
        script.insert(rng.randrange(1, len(script) + 1), ["stall"])
    script.append(["wait_wire", HEADER_BASE + 2])
    script.append(rng.choice([["close"], ["close"], ["resume"]]))
    plan = [None, rng.choice([0, 0, 10]), rng.choice([0, None, ["err", cf.errno.EPIPE], ["err", cf.OTHER_ERRNO]])]
    return {"family": "tail", "adj": {"outbuf_high_watermark": hw, "send_bytes": rng.choice([1, 1, 100]),
                                      "channel_request_lookahead": rng.choice([1, 1, 2])},
            "reqs": reqs, "script": script, "plan": plan, "workers": rng.choice([1, 2])}


def gen_trickle(rng):
    """a slow client: every send accepts a few bytes, then the socket would block; the producer's
    writes are larger than what one I/O turn drains"""
    chunks = [rng.choice([50, 100]) for _ in range(rng.choice([2, 3, 4]))]
    plan = []
    for _ in range(rng.randrange(6, 14)):
        plan += [rng.choice([1, 10, 35]), 0]
    script = [["send", 0]]
    if rng.random() < 0.6:
        script += [["stall"], ["resume"]]
    return {"family": "trickle", "adj": {"outbuf_high_watermark": rng.choice([1, 50, 100, 150]), "send_bytes": rng.choice([1, 1, 100]),
                                         "channel_request_lookahead": 0},
            "reqs": [{"chunks": chunks, "close": rng.random() < 0.3}], "script": script, "plan": plan, "workers": 1}


def gen_migrate(rng):
    """small STRBUF_LIMIT / outbuf_overflow / outbuf_high_watermark: the output buffers change representation
    (bytes -> BytesIO -> temporary file) and rotate with NON-ZERO read positions, under partial sends, while the
    producer is paused and released: total_outbufs_len versus what the buffers really hold"""
    nreq = rng.choice([1, 1, 2])
    reqs = [{"chunks": [rng.choice([30, 50, 70]) for _ in range(rng.choice([3, 4, 5, 6]))], "close": False} for _ in range(nreq)]
    overflow = rng.choice([80, 120, 200])
    hw = rng.choice([overflow + 60, overflow + 150, 400, max(40, overflow - 30)])
    plan = [rng.choice([3, 7, 20, 45])] + [0] * rng.randrange(2, 7)
    for _ in range(rng.randrange(0, 4)):
        plan += [rng.choice([5, 11, 30, 64]), 0]
    script = [["send", i] for i in range(nreq)]
    if rng.random() < 0.5:
        script[1:1] = [["stall"], ["resume"]]
    return {"family": "migrate",
            "adj": {"outbuf_high_watermark": hw, "send_bytes": rng.choice([1, 1, 50]), "outbuf_overflow": overflow,
                    "channel_request_lookahead": rng.choice([0, 1])},
            "reqs": reqs, "script": script, "plan": plan, "workers": rng.choice([1, 2]),
            "strbuf_limit": rng.choice([16, 64, 64, 8192]), "sndbuf": rng.choice([32, 64, 1 << 16])}


GENS = [(gen_generic, 5), (gen_mark, 3), (gen_tail, 2), (gen_trickle, 2), (gen_migrate, 4)]


def gen_scenario(rng):
    tot = sum(w for _, w in GENS)
    x = rng.randrange(tot)
    for g, w in GENS:
        if x < w:
            return g(rng)
        x -= w


def policies(rng, n):
    out = []
    for _ in range(n):
        r = rng.random()
        if r < 0.55:
            out.append(["random", rng.randrange(1 << 30), rng.choice([0.0, 0.5, 0.8, 0.9])])
        else:
            out.append(["pct", rng.randrange(1 << 30), rng.choice([1, 2, 3]), rng.choice([60, 150, 400])])
    return out


# ---------------------------------------------------------------------------

class Campaign:
    def __init__(self, ctx, runner):
        self.ctx = ctx
        self.runner = runner
        self.runs = 0
        self.events = 0
        self.followed = 0
        self.follow_bad = 0
        self.pending = []      # (query, tr, scn, choices)
        self.verdicts = {}
        self.families = {}
        self.findings = {}
        self.nontrivial = set()
        self.parks = 0
        self.closes = 0
        self.lockable = 0
        self.hwsb = {}
        self.samples = []
        self.max_excess = None
        self.conf_fail = []
        self.migrations = {}
        self.runs_with_migration = 0

    def one(self, scn, schedule=(), policy=None):
        ctx = self.ctx
        w = cf.build_world(scn, schedule=schedule, policy=cf.policy_of(policy))
        verdict = w.run()
        self.runs += 1
        self.verdicts[verdict] = self.verdicts.get(verdict, 0) + 1
        self.families[scn.get("family", "?")] = self.families.get(scn.get("family", "?"), 0) + 1
        choices = list(w.sched.choices)
        kinds = set(e[1] for e in w.sched.events)
        parked = any(e[1] == "wait" and w.channel is not None and e[2] == w.names()["cv"] for e in w.sched.events)
        closed = "map_del" in kinds
        lockable = "try_acquire" in kinds
        self.parks += parked
        self.closes += closed
        self.lockable += lockable
        if parked or closed or lockable:
            self.nontrivial.add(_h([scn, choices]))
        k = "hw%s/sb%s" % (("0" if scn["adj"]["outbuf_high_watermark"] == 0 else "+"),
                           ("<=hw" if scn["adj"]["send_bytes"] <= scn["adj"]["outbuf_high_watermark"] else ">hw"))
        self.hwsb[k] = self.hwsb.get(k, 0) + 1
        # representation changes of outbufs[0..] seen between consecutive snapshots (s bytes, b BytesIO, t tempfile)
        prevk = None
        mig = 0
        for i_ in sorted(w.sched.snaps):
            sn_ = w.sched.snaps[i_]
            if sn_ is None:
                continue
            k_ = sn_["k"]
            if prevk is not None and k_ != prevk and len(k_) == len(prevk):
                for a_, b_ in zip(prevk, k_):
                    if a_ != b_:
                        self.migrations[a_ + ">" + b_] = self.migrations.get(a_ + ">" + b_, 0) + 1
                        mig += 1
            prevk = k_
        self.runs_with_migration += 1 if mig else 0
        # monitors
        for key, kf, text in cf.monitors(w, verdict):
            self.findings[(key, kf)] = self.findings.get((key, kf), 0) + 1
            ctx.report("monitor:%s:%s" % (key, kf or "-"), "C12 monitor on the real HTTPChannel: " + text,
                       {"kind": "monitor", "monitor": key, "scenario": scn, "choices": choices, "verdict": verdict,
                        "expected": "no producer parked for ever / bound / order", "observed": text,
                        "failing_input_found": True}, kf_class=kf)
        # conformance
        if self.runner is not None and w.channel is not None:
            q, tr = cf.follow_query(w, scn.get("gran", "locks"))
            self.pending.append((q, tr, scn, choices, verdict))
            if len(self.pending) >= 150:
                self.flush()
        if len(self.samples) < 6 and (parked or closed):
            self.samples.append({"scenario": scn, "verdict": verdict, "steps": len(choices), "parked": bool(parked), "closed": bool(closed)})
        return w, verdict

    def flush(self):
        if not self.pending:
            return
        answers = self.runner.query([p[0] for p in self.pending])
        for ans, (q, tr, scn, choices, verdict) in zip(answers, self.pending):
            ok, matched, detail = cf.compare_follow(ans, tr)
            self.followed += 1
            self.events += matched
            if not ok:
                self.follow_bad += 1
                self.conf_fail.append((len(choices), detail, scn, choices, verdict))
        self.pending = []


def tiny_scenarios():
    return [
        {"family": "tiny", "adj": {"outbuf_high_watermark": 50, "send_bytes": 1, "channel_request_lookahead": 0},
         "reqs": [{"chunks": [10], "close": False}], "script": [["stall"], ["send", 0], ["resume"]], "plan": [], "workers": 1},
        {"family": "tiny", "adj": {"outbuf_high_watermark": 50, "send_bytes": 1, "channel_request_lookahead": 0},
         "reqs": [{"chunks": [10], "close": True}], "script": [["stall"], ["send", 0], ["close"]], "plan": [], "workers": 1},
    ]


def run(ctx):
    thorough = ctx.tier == "thorough"
    t0 = time.time()
    ctx.gate()
    ctx.props()
    ctx.build(["Model/ChanFlow.vo"])
    runner = ctx.runner("chanflow", "ExtChanflow.v")
    ctx.oblige("extracted model runner builds", runner is not None)

    # ---- (1) shape audit
    diffs = cf.shape_audit(vcommon.SRC)
    ctx.oblige("K-shape: lock scopes / tests / attribute accesses / calls of the modelled methods match the model's expected shape",
               not diffs, "; ".join("%s: %s" % d for d in diffs[:4]))
    for m, d in diffs:
        ctx.report("shape:" + m, "channel code no longer has the shape the model was written against: %s: %s" % (m, d),
                   {"kind": "shape", "method": m, "difference": d, "failing_input_found": False,
                    "note": "the model/proof speak for the code only if this shape holds; see harness/chanflow.py EXPECTED_SHAPE"})

    # ---- (2)+(3) campaign on the real code
    camp = Campaign(ctx, runner)
    rng = ctx.rng
    budget = 420.0 if thorough else 28.0
    n_scn = 0
    t0 = time.time()
    while time.time() - t0 < budget and n_scn < (6000 if thorough else 400):
        scn = gen_scenario(rng)
        scn["gran"] = "attrs" if rng.random() < 0.25 else "locks"
        scn["max_steps"] = 2500 if scn["gran"] == "attrs" else 900
        n_scn += 1
        for pol in policies(rng, 4 if thorough else 3):
            camp.one(scn, policy=pol)
            if time.time() - t0 > budget:
                break
    # bounded exhaustive exploration of tiny scenarios (iterative pre-emption bounding)
    exh = []
    for scn in tiny_scenarios():
        scn["gran"] = "locks"
        scn["max_steps"] = 600

        def run_case(prefix, scn=scn):
            w, v = camp.one(scn, schedule=prefix)
            return w.sched
        st = explore(run_case, 2, limit=(4000 if thorough else 250))
        exh.append({"scenario": scn["script"], "runs": st["runs"], "per_preemption_level": st["per_preemption_level"], "truncated": st["truncated"]})
    camp.flush()
    # the two shortest diverging traces are enough to replay a broken tie (the monitors' replays show the property)
    for n_, detail, scn_, choices_, verdict_ in sorted(camp.conf_fail, key=lambda x: x[0])[:2]:
        m = re.search(r"event \d+ (\w):(\w+):.*?(MISMATCH;\w[\w-]*|field \w+)", detail)
        ckey = "%s-%s-%s" % (m.group(1), m.group(2), m.group(3).replace(";", "-").replace(" ", "-")) if m else detail[:30]
        ctx.report("conformance:" + ckey, "the model Model/ChanFlow.v does not follow the real trace: " + detail,
                   {"kind": "conformance", "scenario": scn_, "choices": choices_, "verdict": verdict_,
                    "expected": "every real labelled operation is the model's next step and leads to the same abstract state",
                    "observed": detail, "failing_input_found": True})

    ctx.oblige("K-chanflow: the extracted model follows every real trace (same next operation, same abstract state after it)",
               runner is not None and camp.follow_bad == 0 and camp.followed > 0,
               "%d of %d traces diverge" % (camp.follow_bad, camp.followed))
    unknown = [k for k in camp.findings if k[1] is None]
    ctx.oblige("monitors: accounting (total_outbufs_len == bytes held == appended - sent) / bound / release / abort / order / nothing left hold on every real run",
               not unknown, "; ".join("%s x%d" % (k[0], camp.findings[k]) for k in unknown))

    # ---- (4) the model's own breadth-first search agrees with the theorems on small instances
    bfs = []
    if runner is not None:
        qs = ["explore 0 1 0 1 111 1.1:0 400000 1", "explore 1 3 0 1 111 2.1:0 400000 1", "explore 2 3 0 1 111 3.1:0 400000 1",
              "explore 0 1 0 0 011 1.1:0 400000 1", "explore 1 3 0 0 101 2.1:0 400000 1"]
        if thorough:
            qs += ["explore 2 1 1 1 111 3:0/1:1 3000000 2", "explore 2 1 1 1 110 3:0/1:1 3000000 2", "explore 3 2 0 1 111 2.2:0/1:1 3000000 2"]
        ans = runner.query(qs)
        okb = True
        for q, a in zip(qs, ans):
            f = dict(t.split("=", 1) for t in a.split() if "=" in t)
            fix = q.split()[5]
            safe = fix == "111"
            bfs.append({"params": q.split()[1:7], "states": int(f.get("states", -1)), "bound_bad": int(f.get("bound_bad", -1)),
                        "release_bad": int(f.get("release_bad", -1)), "parked_after_close": int(f.get("parked_disc", -1)),
                        "code_as_it_is": safe})
            if f.get("bound_bad") != "0" or f.get("truncated") != "0":
                okb = False
            if safe and (f.get("release_bad") != "0" or f.get("parked_disc") != "0"):
                okb = False
            if not safe and f.get("release_bad") == "0" and f.get("parked_disc") == "0":
                okb = False   # the old shapes must show their defect
        ctx.oblige("model BFS on small instances agrees with the theorems (bound never violated; release/abort never violated for the code as it is, violated for each old shape)",
                   okb, json.dumps(bfs)[:300])

    # -- byte level: per-buffer bound (C12_buffer_rotation_bound over Model/ChanOut.v) ----------------
    from harness import chanout as HO
    co_runner = ctx.runner("chanout", "ExtChanout.v")
    cob = {"cases": 0, "ops_compared": 0, "disagreements": 0, "bound_or_fifo_problems": 0, "rotations_seen": 0, "max_buffers": 0}
    if co_runner is None:
        ctx.oblige("extracted ChanOut model runner builds", False, "see notes")
    else:
        n_co = 8000 if ctx.tier == "thorough" else 700
        co_cases = [HO.gen_case(ctx.rng, big=(i % 20 == 19)) for i in range(n_co)]
        answers = co_runner.query([HO.model_line(c) for c in co_cases])
        co_bad = []
        for c, a in zip(co_cases, answers):
            rows, problems = HO.run_real(c)
            cob["cases"] += 1
            cob["ops_compared"] += len(rows)
            nb = max([r.count(",") + 1 for r in rows if r.startswith("wire=")] or [1])
            cob["max_buffers"] = max(cob["max_buffers"], nb)
            cob["rotations_seen"] += 1 if nb > 1 else 0
            d = HO.compare(rows, a)
            if d is not None:
                cob["disagreements"] += 1
                co_bad.append(("model", c, d))
            if problems:
                cob["bound_or_fifo_problems"] += 1
                co_bad.append(("spec", c, problems[0]))
        for kind, c, d in sorted(co_bad, key=lambda t: (t[0] != "spec", len(json.dumps(t[1]))))[:2]:
            what = ("output buffers of the real channel (write_soon / _flush_some): operation %d: %s" % (d[0] + 1, d[1]) if kind == "spec"
                    else "real write_soon / _flush_some and Model/ChanOut.v disagree at operation %d: model %s | real %s" % (d[0] + 1, d[1], d[2]))
            ctx.report("chanout:%s:%s" % (kind, hashlib.sha1(json.dumps(c, sort_keys=True).encode()).hexdigest()[:8]), what,
                       {"kind": "chanout", "case": c, "against": kind, "observed": d[1] if kind == "spec" else d[2],
                        "expected": "every OverflowableBuffer <= max(high_watermark-1,0)+W, counters exact, FIFO" if kind == "spec" else d[1],
                        "failing_input_found": kind == "spec"})
        ctx.oblige("K-chanout (C12 slice): the real write_soon / _flush_some agree with Model/ChanOut.v after every operation and, on the same runs, every "
                   "OverflowableBuffer holds at most max(outbuf_high_watermark-1,0)+W bytes, current_outbuf_count stays within that bound, "
                   "total_outbufs_len is exact (%d histories, %d with more than one output buffer)" % (cob["cases"], cob["rotations_seen"]),
                   cob["disagreements"] == 0 and cob["bound_or_fifo_problems"] == 0 and cob["rotations_seen"] > 0)

    ctx.coverage.update({
        "byte_level_buffer_bound": cob,
        "evaluations": camp.runs,
        "traces_validated_against_impl": camp.followed - camp.follow_bad,
        "operations_compared": camp.events,
        "distinct_nontrivial": len(camp.nontrivial),
        "rule": "a run counts as non-trivial when the producer reached outbuf_lock.wait(), the I/O thread took the try-acquire flush, or the channel was closed; distinct = distinct (scenario, schedule)",
        "scenarios": n_scn,
        "distribution": {
            "verdicts": camp.verdicts, "families": camp.families, "watermark_vs_send_bytes": camp.hwsb,
            "runs_with_parked_producer": camp.parks, "runs_with_close": camp.closes, "runs_with_lockable_flush": camp.lockable,
            "findings": {"%s/%s" % k: v for k, v in camp.findings.items()},
            "runs_with_buffer_migration": camp.runs_with_migration, "buffer_migrations": camp.migrations,
        },
        "exhaustive": False,
        "bounded_exploration": exh,
        "states": sum(b["states"] for b in bfs if b["states"] > 0),
        "model_bfs": bfs,
        "shape_digest": cf.shape_digest(cf.method_shapes(vcommon.SRC)),
        "samples": camp.samples,
        "schedules": "seeded RandomPolicy (stay 0/0.5/0.8/0.9), PCT depth 1-3, bounded exhaustive (<= 2 pre-emptions) on tiny scenarios; granularity locks (75%) / attrs (25%)",
    })


def replay(data):
    """re-run one replay dict against /repo; 0 = it no longer fails"""
    kind = data.get("kind")
    if kind == "shape":
        return 1 if cf.shape_audit(vcommon.SRC) else 0
    if kind == "chanout":
        from harness import chanout as HO
        rows, problems = HO.run_real(data["case"])
        for op, r in zip(data["case"]["ops"], rows):
            print("  %-40s -> %s" % (json.dumps(op)[:40], r))
        print("specification now: %r" % (problems,))
        d = None
        rp = os.path.join(vcommon.VERIF, "ocaml", "chanout", "runner")
        if os.path.exists(rp):
            d = HO.compare(rows, vcommon.Runner(rp).query([HO.model_line(data["case"])])[0])
            print("model comparison now: %r" % (d,))
        return 1 if (problems or d) else 0
    scn = data["scenario"]
    w = cf.build_world(scn, schedule=data.get("choices", ()))
    verdict = w.run()
    if kind == "monitor":
        found = [m for m in cf.monitors(w, verdict) if m[0] == data.get("monitor")]
        for m in found:
            print("still fails:", m[2])
        return 1 if found else 0
    if kind == "conformance":
        path, log = vcommon.build_runner("chanflow", "ExtChanflow.v")
        if path is None:
            print("runner does not build")
            return 1
        q, tr = cf.follow_query(w, scn.get("gran", "locks"))
        ans = vcommon.Runner(path).query([q])[0]
        ok, matched, detail = cf.compare_follow(ans, tr)
        if not ok:
            print("still diverges:", detail)
        return 0 if ok else 1
    return 1
