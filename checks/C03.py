"""C03 -- every response stream is well-framed and persistence is signalled truthfully.

Decided by: theorems in Props/C03.v over Model/Task.v against the independent
client parser Spec/ClientParse.v.  Tied to the code by K-task (complete
decision table + generated scripts, real task/channel vs extracted model) and
by the search: the EXTRACTED client parser applied to the bytes the REAL task
wrote must recover status line, application fields and the application's body
(cut at a declared Content-Length), leave nothing over, and the close / keep
decision must match what the head announced."""
import json

from harness import task as T
from lib import vcommon
from lib.vcommon import hexb, unhexb

LEVEL = "proof"
ASSUMPTIONS = [
    "applications are scripts of WSGI-visible actions (start_response / write / iteration / close); header pairs are tuples of plain str",
    "outside the quantifier (as in the property text): body bytes for HEAD, several or non-decimal Content-Length headers; also a __len__ that lies about the number of items, and body bytes with a 1xx/204/304 status",
    "the client of Spec/ClientParse.v: RFC 9112 section 6.3 (HEAD/1xx/204/304 no body; Transfer-Encoding chunked; Content-Length; else read to EOF), names compared case-insensitively, values with OWS stripped",
    "one request per service() call; pipelining is the composition of self-delimited responses (parse_stream), the queue discipline itself belongs to C04",
]


def py_norm(k):
    return "-".join(x.capitalize() for x in k.split("-"))


def first_start(case):
    """the single start_response call of an in-quantifier script, or None"""
    calls = [a for a in T.actions_of(case) if a[0] == "S"]
    if len(calls) != 1 or calls[0][3] is not None:
        return None
    return calls[0]


def in_quantifier(case):
    """-> (True, info) or (False, reason)"""
    app = case["app"]
    if case["req"]["err"] is not None or case["disc"] is not None or case.get("wc"):
        return False, "not an application response"
    st = first_start(case)
    if st is None:
        return False, "not exactly one plain start_response call"
    if any(a[0] in ("R", "M") for a in T.actions_of(case)) or app["close_exn"]:
        return False, "fault"
    if any(s["res"][0] == "R" for s in app["steps"]):
        return False, "fault"
    # start_response must have been called before the first non-empty write / yield
    seen_start = False
    for a in app["call"]:
        seen_start = seen_start or a[0] == "S"
    for s_ in app["steps"]:
        seen_start = seen_start or any(a[0] == "S" for a in s_["acts"])
        if s_["res"][1] not in ("", "-") and not seen_start:
            return False, "output before start_response"
    status, headers = st[1], st[2]
    if T.is_nonstr(status) or len(status) < 3 or not status[:3].isdigit() or (len(status) > 3 and status[3] != " "):
        return False, "status not 'DDD reason'"
    try:
        status.encode("latin-1")
    except UnicodeEncodeError:
        return False, "status not latin-1"
    if "\r" in status or "\n" in status:
        return False, "refused status"
    cls = []
    for k, v in headers:
        if T.is_nonstr(k) or T.is_nonstr(v):
            return False, "non-str header"
        if not k or any(not (c.isalnum() and ord(c) < 128 or c in "!#$%&'*+-.^_`|~") for c in k):
            return False, "name is not a token"
        if any(ord(c) > 255 or c in "\r\n" for c in v):
            return False, "value refused or not latin-1"
        if k.lower() in T.HOP:
            return False, "hop-by-hop"
        if k.lower() == "content-length":
            if not (v.isdigit() and v.isascii()):
                return False, "non-decimal Content-Length"
            cls.append(int(v))
    if len(cls) > 1:
        return False, "several Content-Length"
    has_body = not (status.startswith("1") or status.startswith("204") or status.startswith("304"))
    body = b""
    for a in T.actions_of(case):
        if a[0] == "W":
            body += unhexb(a[1])
    kind = app["kind"]
    blocks = [unhexb(s["res"][1]) for s in app["steps"]]
    # write() calls made inside iteration steps interleave; the generators only write in the call
    if any(a[0] == "W" for s in app["steps"] for a in s["acts"]):
        return False, "write() during iteration (not generated for C03)"
    if kind[0] == "file":
        content = b""
        for b in blocks:
            if not b:
                break
            content += b
        blocks = [content]
    body += b"".join(blocks)
    if kind[0] == "sized" and kind[1] != len(app["steps"]):
        return False, "__len__ lies"
    if body and case["req"]["head"] and has_body:
        return False, "body bytes for HEAD"
    # body bytes produced after a 1xx/204/304 status are in the quantifier: Task.write drops them, and a
    # file wrapper is not handed over after such a status (fix d117733): the client must find the head only
    declared = cls[0] if cls else None
    # a seekable file wrapper with something to send is handed over and its length re-declared,
    # unless write() has already sent the head (then it is iterated like any other iterable)
    seekable_file = (kind[0] == "file" and kind[1] and len(blocks[0]) > 0 and (declared is None or declared > 0)
                     and has_body and not any(a[0] == "W" for a in T.actions_of(case)))
    return True, {"status": status, "headers": headers, "body": body, "declared": declared,
                  "has_body": has_body, "seekable_file": seekable_file}


def parse_answer(ans):
    """runner 'parse' answer -> (n, left, [resp dict])"""
    if not ans.startswith("n="):
        raise RuntimeError("client parser runner failed: " + ans[:100])
    parts = ans.split(" | ")
    head = dict(t.split("=", 1) for t in parts[0].split(" "))
    out = []
    for p in parts[1:]:
        d = dict(t.split("=", 1) for t in p.split(" "))
        fields = []
        if d["fields"] != "none":
            for kv in d["fields"].split(","):
                k, v = kv.split(":")
                fields.append((unhexb(k), unhexb(v)))
        out.append({"sl": unhexb(d["sl"]), "fr": d["fr"], "body": unhexb(d["body"]), "fields": fields})
    return int(head["n"]), unhexb(head["left"]), out


def judge(case, info, real, ans):
    """the property's statement on the real wire -> None | (what, expected, observed, kf_class)"""
    wire = T.wire_of(real)
    n, left, resps = parse_answer(ans)
    rq = case["req"]
    version = rq["version"] if rq["version"] in ("1.0", "1.1") else "1.0"
    closing = real["close"] == "1"
    head_only = rq["head"]
    body, declared = info["body"], info["declared"]
    framed_body = info["has_body"] and not head_only
    if declared is not None and framed_body and not info["seekable_file"]:
        expect_body = body[:declared]
        short = len(body) < declared
    elif declared is not None and framed_body:
        expect_body = body[:declared]
        short = False          # the file wrapper path re-declares the real size
    else:
        expect_body = body if framed_body else b""
        short = False
    if real["esc"] != "none":
        return ("exception escaped service()", "none", real["esc"], None)
    if case["app"]["kind"][0] == "file" and not info["has_body"]:
        # wsgi.file_wrapper after a 1xx/204/304 status: iterated (every block dropped), closed by the task
        if real["hand"] != "0":
            return ("file wrapper handed over to the channel after a 1xx/204/304 status (its bytes follow the body-less head)",
                    "not handed over", "handed over", None)
        if real["closes"] != "1":
            return ("file wrapper not closed exactly once by the task after a 1xx/204/304 status", "1", real["closes"], None)
    if real["hand"] == "1" and any(a[0] == "W" for a in T.actions_of(case)):
        return ("file wrapper handed over after the head had already been sent by write()", "iterated", "handed over", None)
    if short:
        # cannot be delimited as announced: the connection must be closed
        if not closing:
            return ("too few bytes for the declared Content-Length but the connection is kept", "close", "keep", None)
        return None
    if n != 1:
        return ("client cannot parse the response", "one complete response", "n=%d left=%r" % (n, left[:60]), None)
    r = resps[0]
    conn_vals = [v.lower() for k, v in r["fields"] if k.lower() == b"connection"]
    if left:
        return ("bytes left over after the response (a client reads them as the start of the next response)",
                "nothing", repr(left[:60]), None)
    want_sl = ("HTTP/%s %s" % (version, info["status"])).encode("latin-1")
    if r["sl"] != want_sl:
        return ("status line", repr(want_sl), repr(r["sl"]), None)
    got_fields = list(r["fields"])
    for k, v in info["headers"]:
        f = (py_norm(k).encode("latin-1"), v.strip(" \t").encode("latin-1"))
        if f in got_fields:
            got_fields.remove(f)
        elif py_norm(k) == "Content-Length" and (not info["has_body"] or info["seekable_file"]):
            continue
        else:
            return ("application field not recovered", repr(f), repr(r["fields"]), None)
    if r["body"] != expect_body:
        return ("body", repr(expect_body[:80]), repr(r["body"][:80]), None)
    if r["fr"] == "E" and not closing:
        return ("close-delimited body but the connection is kept", "close", "keep", None)
    if b"close" in conn_vals and b"keep-alive" in conn_vals:
        return ("both Connection: close and Connection: Keep-Alive", "one of them", repr(conn_vals), None)
    # persistence is signalled truthfully
    if closing and b"close" not in conn_vals:
        return ("connection closed after a complete response that did not announce it", "Connection: close", repr(conn_vals), None)
    if not closing:
        if b"close" in conn_vals:
            return ("Connection: close announced but the connection is kept", "close", "keep", None)
        if version == "1.0" and b"keep-alive" not in conn_vals:
            return ("HTTP/1.0 connection kept without Connection: Keep-Alive", "Keep-Alive", repr(conn_vals), None)
    return None


def judge_error_task(case, real, ans):
    """error responses (ErrorTask) always close and must say so, once; the client of a HEAD
    request finds no body and nothing left over"""
    n, left, resps = parse_answer(ans)
    if case["disc"] is not None:
        return None
    if real["esc"] != "none":
        return ("exception escaped service() from the server's own error path", "none", real["esc"], None)
    if not T.ident_encodable(case):
        # a server whose ident cannot be encoded can build no head at all (configuration outside the
        # property's quantifier): what remains is that the connection is closed and nothing is sent
        if T.wire_of(real) or real["close"] != "1":
            return ("no head can be built (ident is not latin-1): bytes were sent or the connection was kept",
                    "nothing sent, connection closed", "%d bytes, close=%s" % (len(T.wire_of(real)), real["close"]), None)
        return None
    if not T.wire_of(real):
        return ("request.error but no error response was written", "one complete error response", "nothing", None)
    if n != 1 or left:
        return ("client cannot parse the error response", "one complete response", "n=%d left=%r" % (n, left[:40]), None)
    r = resps[0]
    # the body: Error.to_response's text, exactly Content-Length bytes -- none when the request was a HEAD
    # (fix 7243240; the head still announces the length the body would have)
    cls = [v for k, v in r["fields"] if k.lower() == b"content-length"]
    if len(cls) != 1 or not cls[0].isdigit():
        return ("error response without exactly one decimal Content-Length", "one", repr(cls), None)
    if int(cls[0]) != len(T.expected_error_body(case)):
        return ("error response announces a length that is not the length of Error.to_response's text",
                str(len(T.expected_error_body(case))), cls[0].decode(), None)
    if case["req"]["head"]:
        if r["fr"] != "N" or r["body"]:
            return ("error response to HEAD carries a body", "FNoBody", r["fr"], None)
    else:
        if r["fr"] != "L%d" % int(cls[0]) or len(r["body"]) != int(cls[0]):
            return ("error response body differs from the announced Content-Length", "L" + cls[0].decode(), "%s/%d" % (r["fr"], len(r["body"])), None)
        want = T.expected_error_body(case)
        if r["body"] != want:
            return ("error response body is not Error.to_response's text (reason, message / traceback text, ident -- whatever characters they contain)",
                    repr(want[:80]), repr(r["body"][:80]), None)
    conn_vals = [v.lower() for k, v in r["fields"] if k.lower() == b"connection"]
    if real["close"] != "1":
        return ("error response but the connection is kept", "close", "keep", None)
    if b"close" not in conn_vals:
        return ("error response without Connection: close", "close", repr(conn_vals), None)
    if b"keep-alive" in conn_vals:
        return ("both Connection: close and Connection: Keep-Alive", "one of them", repr(conn_vals), None)
    return None


def judge_wire(case, wcfg, real, extra, ans):
    ok, info = in_quantifier(case)
    if not ok:
        return None
    if extra["empty_sends"]:
        return ("send() called with an EMPTY chunk while total_outbufs_len > 0: an output buffer reports unsent bytes it cannot produce (bytes lost inside the buffer layer)",
                "0", str(extra["empty_sends"]), None)
    if extra["stalled"] or extra["left_in_buffers"]:
        return ("the response is never completely sent although the socket accepts everything (the connection stalls)",
                "drained", "%d bytes left in the output buffers" % extra["left_in_buffers"], None)
    return judge(case, info, real, ans)


def wire_search(ctx, runner):
    from harness import task_wire as TW
    runs = TW.wire_runs(ctx.rng, ctx.tier)
    results, queries = [], []
    for tag, case, wcfg in runs:
        real, extra = TW.run_wire(case, wcfg)
        results.append((real, extra))
        queries.append("parse %s %s" % ("1" if case["req"]["head"] else "0", hexb(T.wire_of(real))))
    parsed = runner.query(queries)
    ok = True
    mig = {}
    partly = 0
    framing = {}
    heads = set()
    for (tag, case, wcfg), (real, extra), ans in zip(runs, results, parsed):
        for kind, pos, n in extra["migrations"]:
            key = kind + (" at read position > 0" if pos else "")
            mig[key] = mig.get(key, 0) + 1
        if extra["partly_sent_migrations"]:
            partly += 1
        try:
            n, left, resps = parse_answer(ans)
            if n == 1:
                framing[resps[0]["fr"][0]] = framing.get(resps[0]["fr"][0], 0) + 1
        except RuntimeError:
            pass
        heads.add((tag[0], wcfg["strbuf"], wcfg["overflow"], wcfg["sndbuf"], tuple(wcfg["plan"][:12]), extra["partly_sent_migrations"]))
        v = judge_wire(case, wcfg, real, extra, ans)
        if v is not None:
            what, exp, obs, kf = v
            ok = False
            ctx.report("wire:%s:%s" % (what[:40], json.dumps(tag)[:70]), "C03 fails on the real wire through the channel's output buffers (%s): %s" % (tag, what),
                       {"kind": "wire", "case": case, "wcfg": wcfg, "expected": exp, "observed": obs, "what": what,
                        "migrations": extra["migrations"], "wire_hex": hexb(T.wire_of(real))[:4000], "failing_input_found": True},
                       kf_class=kf)
    ev = {"runs": len(runs), "runs_with_a_migration_of_a_partly_sent_buffer": partly, "migrations": mig,
          "framing": framing, "distinct_runs": len(heads),
          "distribution": "13 response shapes of 2-4 KB (Content-Length, chunked, close-delimited, write()+iterable, one-chunk list, seekable / non-seekable file wrapper with and without declared length, too few bytes) x 5 (STRBUF_LIMIT, outbuf_overflow, SO_SNDBUF) settings x 6 send plans (partial and zero-byte sends) + random plans"}
    return ok, ev


def run(ctx):
    ctx.translate({"GenTables"})
    ctx.gate()
    props_ok, failing, log = ctx.props()
    ctx.build(["Model/Task.vo", "Spec/ClientParse.vo"])
    runner = ctx.runner("task", "ExtTask.v")
    if runner is None:
        ctx.oblige("extracted task runner builds", False, "see notes")
        return
    rng = ctx.rng
    cases = T.decision_table() + T.random_cases(rng, ctx.tier) + T.framing_cases(rng, ctx.tier)
    answers = runner.query([T.ser_case(c) for _, c in cases])
    agree = True
    reals = []
    for (tag, case), ans in zip(cases, answers):
        real, extra = T.run_real(case)
        reals.append(real)
        d = T.compare(case, ans, real)
        if d is not None:
            agree = False
            ctx.report("k-task:" + json.dumps(tag)[:80], "model and implementation disagree (%s): %s" % (tag, d[:300]),
                       {"kind": "k-task", "case": case, "expected": T.parse_model_line(ans), "observed": real,
                        "failing_input_found": True})
    ctx.oblige("K-task: extracted model agrees with the real task/channel on the complete decision table and on generated scripts", agree)

    # search: the extracted client on the real bytes
    idx, queries = [], []
    outside = {}
    for i, ((tag, case), real) in enumerate(zip(cases, reals)):
        if case.get("wc"):
            outside["connection already marked for closing"] = outside.get("connection already marked for closing", 0) + 1
            continue
        if case["req"]["err"] is not None:
            idx.append((i, None))
        elif real["s500"] == "1" and case["disc"] is None:
            # the ladder's 500 for an application that failed before any output: an error response
            # like ErrorTask's (to a HEAD request: no body, fix 52947ac)
            idx.append((i, None))
        else:
            ok, info = in_quantifier(case)
            if not ok:
                outside[info] = outside.get(info, 0) + 1
                continue
            idx.append((i, info))
        queries.append("parse %s %s" % ("1" if case["req"]["head"] else "0", hexb(T.wire_of(real))))
    parsed = runner.query(queries)
    search_ok = True
    nontrivial = set()
    dist = {"N": 0, "C": 0, "L": 0, "E": 0, "short": 0, "keep": 0, "close": 0}
    samples = []
    for (i, info), ans in zip(idx, parsed):
        tag, case = cases[i]
        real = reals[i]
        v = judge_error_task(case, real, ans) if info is None else judge(case, info, real, ans)
        n, left, resps = parse_answer(ans)
        if n == 1:
            dist[resps[0]["fr"][0]] += 1
            nontrivial.add((resps[0]["fr"], real["close"], case["req"]["version"], str(case["req"]["conn"]).lower(),
                            case["req"]["head"], hexb(resps[0]["body"]), len(resps[0]["fields"])))
        else:
            dist["short"] += 1
        dist["close" if real["close"] == "1" else "keep"] += 1
        if v is not None:
            what, exp, obs, kf = v
            if kf is None:
                search_ok = False
            ctx.report("search:%s:%s:%s" % (kf, what[:40], json.dumps(tag)[:60]), "C03 fails on the real code (%s): %s" % (tag, what),
                       {"kind": "search", "case": case, "expected": exp, "observed": obs, "what": what,
                        "wire_hex": hexb(T.wire_of(real)), "failing_input_found": True}, kf_class=kf)
        if len(samples) < 6 and i % 1777 == 0:
            samples.append({"tag": list(map(str, tag)), "wire": hexb(T.wire_of(real)[:160]), "client": ans[:160]})
    ctx.oblige("search: the extracted client parser recovers status, fields and body from the bytes the REAL task wrote; nothing is left over; close/keep matches the announcement (outside open known-finding classes)", search_ok)

    # search through the channel's output buffers: the REAL HTTPChannel flushes to a scripted socket that
    # accepts only part of each send while STRBUF_LIMIT / outbuf_overflow are shrunk, so that buffers change
    # representation while partly sent (harness/task_wire.py); same client parser, exact body bytes
    wire_ok, wire_ev = wire_search(ctx, runner)
    ctx.oblige("search (wire): through the real channel's output buffers with partial / zero-byte sends and buffer migrations at non-zero read positions, the client recovers exactly the response (status, fields, body bytes), nothing is lost or left over, nothing stalls", wire_ok)

    if not props_ok and not ctx.violations:
        ctx.report("c03-proof-broken", "Props/C03.v no longer checks (%s)" % failing,
                   {"failing_input_found": False, "broken": "Props/C03.v via %s" % failing, "log_tail": (log or "")[-1500:]})

    ctx.coverage.update({
        "evaluations": len(cases),
        "client_parses": len(queries),
        "distinct_nontrivial": len(nontrivial),
        "rule": "non-trivial = distinct (framing, close, version, Connection, HEAD, body, number of fields) of responses the client parsed from the real wire; the decision table method{GET,HEAD} x version{1.0,1.1,2.0} x Connection{absent,close,keep-alive,Keep-Alive,CLOSE,upgrade} x status{200,204,304,100} x Content-Length{absent,exact,larger,smaller,zero} x 18 iterable/write shapes (incl. write(b"") and write() before a seekable / non-seekable file wrapper) is enumerated completely, and so is the error table error class{400,413,431,501} x method{GET,HEAD} x version x Connection x connection_close and the ladder-500 table (5 ways of failing before output x method{GET,HEAD} x version x Connection x connection_close x expose_tracebacks)",
        "samples": samples,
        "framing_distribution": dist,
        "outside_quantifier": outside,
        "wire_search": wire_ev,
    })


def replay(data):
    case = data["case"]
    if data.get("kind") == "wire":
        from harness import task_wire as TW
        real, extra = TW.run_wire(case, data["wcfg"])
        ctx_runner = vcommon.Runner(vcommon.build_runner("task", "ExtTask.v")[0])
        ans = ctx_runner.query(["parse %s %s" % ("1" if case["req"]["head"] else "0", hexb(T.wire_of(real)))])[0]
        v = judge_wire(case, data["wcfg"], real, extra, ans)
        print("migrations now:", extra["migrations"])
        print("wire search on the real code now:", v)
        return 0 if v is None else 1
    real, extra = T.run_real(case)
    if data.get("kind") == "search":
        ctx_runner = vcommon.Runner(vcommon.build_runner("task", "ExtTask.v")[0])
        ans = ctx_runner.query(["parse %s %s" % ("1" if case["req"]["head"] else "0", hexb(T.wire_of(real)))])[0]
        if case["req"]["err"] is not None or (real["s500"] == "1" and case["disc"] is None):
            v = judge_error_task(case, real, ans)
        else:
            ok, info = in_quantifier(case)
            v = judge(case, info, real, ans) if ok else None
        print("wire now:", T.wire_of(real)[:300])
        print("search on the real code now:", v)
        return 0 if v is None else 1
    print("observed now:", real)
    print("expected    :", data.get("expected"))
    exp = data.get("expected") or {}
    return 0 if all(exp.get(f) == real[f] for f in T.FIELDS) else 1
