"""C06 -- oversize and malformed input is refused totally: error response, close, no crash.

Decided by: Coq theorems over the transliterated receivers / parser / channel
loop (Props/C06.v: termination of the chunked loop, totality of
HTTPRequestParser.received and HTTPChannel.received -- no escaping exception, no
spinning --, the three limit theorems with their boundaries, boundedness of the
carry state), tied to the code by the K-chanseq correspondence on a dedicated
oversize stream, plus a search that drives the REAL channel, parser, receivers
and ErrorTask single-threaded over oversize / malformed streams and checks the
property's own executable statement (harness/limit_search.py: P1..P5)."""
import hashlib
import json

from harness import limit_search as L
from harness import parser_corr as PC
from harness import parser_h as H
from lib import vcommon
from lib.vcommon import hexb

LEVEL = "proof"
ASSUMPTIONS = [
    "the sequential models Parser.v / Receiver.v / ChanSeq.v speak for the code: checked by K-chanseq on every run (oversize stream included)",
    "CPython's int() digit limit is the default 4300 (sys.get_int_max_str_digits()); checked at run time",
    "split_uri on bracketed IPv6 authorities is not modelled: the totality theorem is stated as 'never escapes, never out of fuel' (unmodelled is a modelling gap, the search covers such targets on the real code)",
    "the error response itself: proved by composition with C03's frame theorems over Model/Task.v (C06_error_response_wf, tie: K-task in checks/C03.py; the tag -> class table is tied by K-chanseq/K-parse comparing class code and message of the real error object, the (code, reason) pairs are regenerated from utilities.py by the GenTables translator) and checked on the real code by the search (P3)",
    "channel_request_lookahead = 0 for 'stops consuming within one read' (DESIGN.md section 8)",
]

MODEL_VO = ["Lib/PyBytes.vo", "Gen/GenRegex.vo", "Model/Receiver.vo", "Model/UrlSplit.vo", "Model/Parser.vo",
            "Model/ChanSeq.vo"]


def run(ctx):
    ctx.translate({"GenRegex", "GenTables", "GenPreds"})
    ctx.gate()
    props_ok, failing, log = ctx.props()
    ctx.build(list(MODEL_VO))
    runner = ctx.runner("parser", "ExtParser.v")
    rng = ctx.rng
    thorough = ctx.tier == "thorough"
    evaluations = 0
    nontrivial = set()
    samples = []

    import sys
    digits_ok = sys.get_int_max_str_digits() == 4300
    ctx.oblige("CPython int digit limit is the modelled 4300", digits_ok, str(sys.get_int_max_str_digits()))

    all_cases = list(L.gen_cases(rng, ctx.tier))

    # ---- K-chanseq on the oversize stream (+ the standard streams)
    if runner is None:
        ctx.oblige("extracted parser/channel runner builds", False, "see notes")
    else:
        cases = PC.build_cases(rng, 900 if thorough else 120, small_atoms=2 if thorough else 1)
        nover = 0
        nskip_hex = 0
        budget = 2.5e8 if thorough else 6e7     # ~1e7 units per second of model time
        for c in all_cases:
            total = sum(len(r) for r in c["reads"])
            # the model prints every carry field after every read and its regex
            # matcher costs ~65 us per byte of a header line: bound the volume
            # (the search below runs every case on the real code regardless)
            vol = len(c["reads"]) * total
            if vol > 7e7 or vol > budget:
                continue
            if total > 20000 and c["kind"] == "head-terminated-1":
                # a delivered head with one header line of > 20 kB: the model's regex
                # matcher is quadratic in the line length (minutes); real code only
                continue
            budget -= vol
            # a chunk size of thousands of hex digits: the extracted model computes
            # firstn (N.to_nat rm) with a unary nat and cannot run it (the Coq term is
            # fine and covered by the theorems); searched on the real code below
            if c["kind"] == "hex-thousands":
                nskip_hex += 1
                continue
            cases.append(("chan", c["mh"], c["mb"], c["reads"], {"stream": "oversize:" + c["kind"].rstrip("+-0123456789")}))
            nover += 1
        stats, bad = PC.run_cases(runner, cases)
        evaluations += stats["evaluations"]
        ok = not bad
        if bad:
            d = PC.shrink(runner, bad[0]) if sum(len(r) for r in bad[0]["reads"]) < 3000 else dict(bad[0], difference=PC.first_difference(bad[0]["model"], bad[0]["impl"]))
            ctx.report("k-chanseq:" + hashlib.sha1(json.dumps(d["reads"]).encode()).hexdigest()[:12],
                       "model and real HTTPChannel.received disagree: %s" % (d["difference"],),
                       {"kind": "k-chanseq", "mh": d["mh"], "mb": d["mb"], "reads_hex": d["reads"],
                        "expected": d["model"][-1][:400], "observed": d["impl"][-1][:400],
                        "difference": d["difference"], "failing_input_found": True})
        ctx.oblige("K-chanseq: extracted model = real HTTPChannel.received on every generated case incl. the oversize stream", ok,
                   "" if ok else "%d disagreements" % len(bad))
        samples.append({"suite": "k-chanseq", "cases": stats["evaluations"], "oversize_cases": nover, "huge_chunk_size_cases_not_run_on_model": nskip_hex, "reads": stats["reads"],
                        "unmodelled_skipped": stats["unmodelled"], "streams": stats["streams"], "errors": stats["errors"]})

    # ---- search on the real channel + ErrorTask
    kinds = {}
    outcomes = {"refused": 0, "delivered": 0, "open": 0}
    failures = []
    kf_seen = {}
    codes = {}
    recvs = {}
    for c in all_cases:
        res = L.drive(c["mh"], c["mb"], c["reads"])
        evaluations += 1
        k = c["kind"].rstrip("+-0123456789")
        kinds[k] = kinds.get(k, 0) + 1
        recvs[c["recv"]] = recvs.get(c["recv"], 0) + 1
        outcomes[{"refuse": "refused", "deliver": "delivered", "open": "open"}[c["expect"][0]]] += 1
        bad = L.judge(c, res)
        resp, _ = L.parse_wire(res["wire"])
        for r in resp:
            if r["code"] >= 400:
                codes[r["code"]] = codes.get(r["code"], 0) + 1
        nontrivial.add((c["kind"], c["mh"], c["mb"], c["recv"], len(c["prefix_paths"])))
        if bad:
            failures.append((c, res, bad))
    ngen = 20000 if thorough else 2500
    for c in L.gen_generic(rng, ngen):
        res = L.drive(c["mh"], c["mb"], c["reads"])
        evaluations += 1
        kinds["generic"] = kinds.get("generic", 0) + 1
        bad = L.judge_generic(c, res)
        resp, _ = L.parse_wire(res["wire"])
        for r in resp:
            if r["code"] >= 400:
                codes[r["code"]] = codes.get(r["code"], 0) + 1
        if res["calls"]:
            nontrivial.add(hashlib.sha1(b"".join(c["reads"]) + bytes([c["recv"] % 251])).hexdigest())
        if bad:
            c = dict(c, prefix_paths=[], expect=("generic",))
            failures.append((c, res, bad))

    # P4 with channel_request_lookahead >= 1 and a worker that is busy elsewhere: the refused message is
    # queued as an error request, the channel stays readable (len(requests) <= lookahead) and goes on
    # consuming input after the read that crossed the limit -- open known finding kf_c06_lookahead_reads.
    # What must still hold, and is reported as a violation if it does not: a read is accepted only while at
    # most `lookahead` requests are queued (one read may complete several); once the worker runs, P1 P2 P3 P5 as for lookahead 0 (one error response, close,
    # nothing behind the refused message executed).
    la_stats = {"runs": 0, "reads_after_the_crossing_read": {}, "max_queued": 0}
    for c in all_cases:
        if c.get("cross_read") is None or c["expect"][0] != "refuse":
            continue
        for la in (1, 3):
            res = L.drive(c["mh"], c["mb"], c["reads"], lazy_worker=True, channel_request_lookahead=la)
            evaluations += 1
            la_stats["runs"] += 1
            extra = res["reads_accepted"] - (c["cross_read"] + 1)
            la_stats["max_queued"] = max(la_stats["max_queued"], res["max_queued"])
            bad = [b for b in L.judge(c, res) if b[0] != "P4"]
            if res["max_queued"] > la:
                bad.append(("P4", "a read was accepted with %d requests queued, channel_request_lookahead=%d" % (res["max_queued"], la)))
            if bad:
                failures.append((dict(c, kind=c["kind"] + "+lookahead%d" % la), res, bad))
            elif extra > 0:
                k = str(min(extra, 5)) + ("+" if extra > 5 else "")
                la_stats["reads_after_the_crossing_read"][k] = la_stats["reads_after_the_crossing_read"].get(k, 0) + 1
                old = kf_seen.get("kf_c06_lookahead_reads")
                if old is None or sum(len(r) for r in c["reads"]) < sum(len(r) for r in old[0]["reads"]):
                    kf_seen["kf_c06_lookahead_reads"] = (dict(c, kind=c["kind"] + "+lookahead%d" % la), res,
                        [("P4", "channel_request_lookahead=%d, worker busy: %d reads accepted, limit crossed in read %d"
                          % (la, res["reads_accepted"], c["cross_read"]))])

    def replay_of(c, res, bad):
        stream = b"".join(c["reads"])
        d = {"kind": "limit", "case_kind": c["kind"], "mh": c["mh"], "mb": c["mb"], "recv": c["recv"],
             "expect": list(c["expect"]), "prefix_paths": c["prefix_paths"], "cross_read": c.get("cross_read"),
             "after": c.get("after"),
             "failed": [list(b) for b in bad], "observed": {"calls": res["calls"], "wire_head": res["wire"][:200].decode("latin-1"),
                                                          "raised": res["raised"], "reads_accepted": res["reads_accepted"],
                                                          "closed": res["closed"]},
             "expected": "P1..P5 of harness/limit_search.py hold", "failing_input_found": True}
        if len(stream) <= 20000:
            d["stream_hex"] = stream.hex()
        else:
            d["stream_len"] = len(stream)
            d["stream_head_hex"] = stream[:400].hex()
        return d

    for cl, (c, res, bad) in kf_seen.items():
        ctx.report("kf:" + cl, "known defect (%s): %s" % (cl, bad[0][1]), replay_of(c, res, bad), kf_class=cl)
    failures.sort(key=lambda t: sum(len(r) for r in t[0]["reads"]))
    seen = set()
    for c, res, bad in failures:
        key = "limit:%s:%s" % (c["kind"].rstrip("+-0123456789"), bad[0][0])
        if key in seen:
            continue
        seen.add(key)
        ctx.report(key, "C06 fails on the real channel (%s, max_header=%d, max_body=%d, recv=%d): %s"
                   % (c["kind"], c["mh"], c["mb"], c["recv"], "; ".join(b[1] for b in bad)[:300]), replay_of(c, res, bad))
    ctx.oblige("search: every oversize / malformed stream is refused as C06 says on the real channel + ErrorTask (P1..P5, outside open known-finding classes)",
               not failures, "" if not failures else "%d failing cases" % len(failures))
    samples.append({"suite": "limit-search under lookahead with a busy worker", **la_stats})
    samples.append({"suite": "limit-search", "cases_by_kind": kinds, "expected_outcomes": outcomes,
                    "error_statuses_seen": {str(k): v for k, v in codes.items()},
                    "recv_sizes": {str(k): v for k, v in sorted(recvs.items())}})

    # "no input makes the parsing code hang": the gates are regexes run by a
    # backtracking engine; a pattern can keep its language and still take
    # super-linear time.  Pump every structural position of every call site and
    # time the real code (child process: a running match holds the GIL).
    from harness import hang_search
    n_h, slow, hung = hang_search.search(total_timeout=90 if ctx.tier == "quick" else 300)
    evaluations += n_h
    # accumulate-and-rescan in the chunked receiver (open known finding kf_c06_control_line_rescan): an
    # unterminated chunk-size line / trailer delivered in many reads costs time quadratic in its length
    rescan = [x for x in slow if x[0] == "chunked-reads"]
    slow = [x for x in slow if x[0] != "chunked-reads"]
    for site, hx, dt in rescan[:1]:
        ctx.report("kf:kf_c06_control_line_rescan",
                   "known defect (kf_c06_control_line_rescan): an unterminated chunk-size line / trailer of %s bytes delivered in %d-byte reads "
                   "took %.2f s of CPU and twice the length takes about four times as long" % (hx.split("..x")[-1], hang_search.READ_SIZE, dt),
                   {"kind": "hang", "site": site, "input_shape": hx[:40], "seconds": dt, "failing_input_found": True},
                   kf_class="kf_c06_control_line_rescan")
    for site, hx, dt in slow[:3]:
        data = bytes.fromhex(hx)
        ctx.report("slow:%s:%s" % (site, hashlib.sha1(data).hexdigest()[:10]),
                   "C06: the real %s call site took %.2f s on a %d-byte input (budget %.1f s): super-linear matching time"
                   % (site, dt, len(data), hang_search.PER_INPUT_BUDGET),
                   {"kind": "hang", "site": site, "input_hex": hx if len(hx) < 20000 else hx[:200] + "...", "input_len": len(data),
                    "input_shape": repr(data[:40]) + " ... " + repr(data[-12:]), "seconds": dt, "failing_input_found": True})
    if hung:
        site, hx = hung
        data = bytes.fromhex(hx)
        ctx.report("hang:%s:%s" % (site, hashlib.sha1(data).hexdigest()[:10]),
                   "C06: the real %s call site did not return on a %d-byte input within the search's time limit" % (site, len(data)),
                   {"kind": "hang", "site": site, "input_hex": hx if len(hx) < 20000 else hx[:200] + "...", "input_len": len(data),
                    "input_shape": repr(data[:40]) + " ... " + repr(data[-12:]), "failing_input_found": True})
    ctx.oblige("hang search: every pumped input returns from the real call sites within %.1f s (%d inputs up to 8 KiB)"
               % (hang_search.PER_INPUT_BUDGET, n_h), not slow and not hung,
               "" if not slow and not hung else "%d slow, hung=%r" % (len(slow), bool(hung)))
    samples.append({"suite": "hang-search", "inputs": n_h, "slow": len(slow), "hung": bool(hung)})

    # "stops consuming" at loop level (C06_no_read_event_select / _poll2): the statement
    # evaluated on the REAL wasyncore.poll / poll2 / readwrite for every scan outcome and
    # every kernel answer the hypotheses allow (shared with C18: harness/server.py)
    from harness import server as HS
    loop_turns, loop_bad = HS.loop_search()
    evaluations += loop_turns
    loop_bad = [v for v in loop_bad if "handle_read_event" in v["what"]]
    ctx.oblige("loop: real poll / poll2 dispatch no read event to an object whose readable() was false at scan time (%d turns)" % loop_turns,
               not loop_bad, "" if not loop_bad else loop_bad[0]["what"])
    for v in loop_bad[:1]:
        ctx.report("loop-read:%s" % v["loop"],
                   "C06: %s keeps reading from a connection that must not be read: %s (readable()=%s writable()=%s, kernel answer %r)"
                   % (v["loop"], v["what"], v["readable"], v["writable"], v["kernel_answer"]),
                   dict(v, kind="loop", expected="no handle_read_event unless readable() held at scan time", observed=v["what"]))
    samples.append({"suite": "loop-level", "turns": loop_turns, "violating": len(loop_bad)})

    if not props_ok and not ctx.violations:
        ctx.report("c06-proof-broken", "Props/C06.v no longer checks (%s); the search found no failing stream" % failing,
                   {"failing_input_found": False, "broken": "Props/C06.v via %s" % failing, "log_tail": (log or "")[-1500:]})

    ctx.coverage.update({
        "evaluations": evaluations,
        "distinct_nontrivial": len(nontrivial),
        "rule": "oversize shapes (unterminated / terminated head at limit-1/0/+1/+300, declared length and chunked wire bytes at limit-1/0/+1, unterminated control line / extension / trailer, hex and decimal numbers of thousands of digits, malformed framing) x max_header in 8..262144 x max_body in 1..2^30 x recv size in 1..8192 and unbounded x 0..2 delivered messages in front; plus grammar/mutation streams with limits around their sizes; non-trivial = distinct (shape, limits, recv, prefix) cases and distinct generic streams that reached the application",
        "samples": samples,
        "input_distribution": kinds,
    })


def replay(data):
    if data.get("kind") == "loop":
        from harness import server as HS
        n, bad = HS.loop_search()
        bad = [v for v in bad if "handle_read_event" in v["what"]]
        print("loop-level statement now: %d turns, %d violating; then: %s" % (n, len(bad), data.get("what")))
        return 1 if bad else 0
    if data.get("kind") == "hang":
        from harness import hang_search
        n, slow, hung = hang_search.search(120)
        print("hang search now: %d inputs, %d slow, hung=%r" % (n, len(slow), hung and hung[0]))
        return 1 if slow or hung else 0
    if data.get("kind") == "k-chanseq":
        ctx = vcommon.Ctx("C06", "quick", 0)
        runner = ctx.runner("parser", "ExtParser.v")
        reads = [vcommon.unhexb(r) for r in data["reads_hex"]]
        m = runner.query([H.model_chan_cmd(data["mh"], data["mb"], reads)])[0].split(" ; ")
        i = H.impl_chan(data["mh"], data["mb"], reads)
        print("model:", m[-1][:300])
        print("impl: ", i[-1][:300])
        return 0 if m == i else 1
    if "stream_hex" not in data:
        print("stream too long to be stored; regenerate with ./check C06")
        return 1
    s = bytes.fromhex(data["stream_hex"])
    reads = L.split_by(s, data["recv"])
    import re as _re
    m_la = _re.search(r"\+lookahead(\d+)$", data.get("case_kind") or "")
    if m_la:
        la = int(m_la.group(1))
        res = L.drive(data["mh"], data["mb"], reads, lazy_worker=True, channel_request_lookahead=la)
        extra = res["reads_accepted"] - ((data.get("cross_read") or 0) + 1)
        print("channel_request_lookahead=%d, worker busy: %d reads accepted, limit crossed in read %s, max queued %d"
              % (la, res["reads_accepted"], data.get("cross_read"), res["max_queued"]))
        print("calls=%r raised=%r closed=%r wire=%r" % (res["calls"], res["raised"], res["closed"], res["wire"][:120]))
        return 1 if extra > 0 or res["max_queued"] > la else 0
    res = L.drive(data["mh"], data["mb"], reads)
    case = {"mh": data["mh"], "mb": data["mb"], "reads": reads, "prefix_paths": data["prefix_paths"],
            "expect": tuple(tuple(x) if isinstance(x, list) else x for x in data["expect"]),
            "cross_read": data.get("cross_read"), "after": data.get("after")}
    bad = L.judge_generic(case, res) if case["expect"][0] == "generic" else L.judge(case, res)
    print("case=%s max_header=%d max_body=%d recv=%d" % (data.get("case_kind"), data["mh"], data["mb"], data["recv"]))
    print("calls=%r raised=%r closed=%r wire=%r" % (res["calls"], res["raised"], res["closed"], res["wire"][:120]))
    print("failed now:", bad)
    return 0 if not bad else 1
