"""C17 -- buffers are faithful byte queues across all representation changes.

Decided by: Coq proofs (Props/C17.v) that the model of buffers.py
(Model/Buffers.v) refines the FIFO queue of Spec/Fifo.v for ALL operation
histories, ALL STRBUF_LIMITs and ALL overflow thresholds (representation
invariant, refinement of every output, exactly-once accounting, the error
branch of skip, representation bounds, close, and the read-only buffer's
clamp), tied to the code by K-buf: the real OverflowableBuffer (real BytesIO,
real TemporaryFile) and the real ReadOnlyFileBasedBuffer are driven side by
side with the extracted model and compared after EVERY operation (return value,
len, representation, overflowed, remain, file position, file content).  The
search runs the implementation directly against the extracted specification
and an independent Python byte queue.

Operating-system faults (Proof/BuffersFault.v, harness FaultEnv): at every
operation that changes the representation an exception is injected into
TemporaryFile() / BytesIO() and into every call of write/seek/tell/read on the
files involved; the theorem C17_fault_atomicity (every fault of the model: file
constructors, the copy loop's write, the write of _create_buffer's
buf.append(self.strbuf), the write of append()'s buf.append(s)) and the model's
step_f are compared with the real code, and the fault specification (exception
propagates, queue intact, later operations behave) is searched directly at every
call of every file method.  The three site classes where the code used to keep
only the weaker guarantee "nothing destroyed" were repaired by /repo commit
c9585b7; C17_fault_old_shape_refuted keeps the witness against the old shape."""
import hashlib
import json

from lib import vcommon
from harness import buffers as hb

LEVEL = "proof"
ASSUMPTIONS = [
    "io.BytesIO and tempfile.TemporaryFile('w+b') are represented by the file model (content, pos, closed) with seek/tell/read/write/close as in Model/Buffers.v; K-buf observes tell() and the whole content of the real files after every operation",
    "operations are those the server issues: append, get(numbytes, skip), skip(numbytes >= 0, allow_prune), __len__, getfile, close; prune() is outside the property; the file returned by getfile() is not read or written by the caller while the buffer is still in use",
    "ReadOnlyFileBasedBuffer: seekable wrapped file positioned inside its content, prepare(size) with size None or >= 0, get(numbytes >= -1)",
    "the COPY_BYTES loop of FileBasedBuffer.__init__ is modelled as one whole-file copy (K-buf runs the real loop)",
    "faults: the model carries the failure of the new file object's construction (FCtor KTmp / KBio), of the first write of a single-chunk copy loop (FCopyWrite), of the write inside _create_buffer's buf.append(self.strbuf) (FCreateWrite) and of the write inside append()'s buf.append(s) (FAppendWrite); the compensating seek in a finally block and close() in the except block are assumed not to fail; failures of other file calls (seek / tell / read) are search-only (injected through subclass/wrapper objects around real BytesIO / TemporaryFile); an injected exception is raised before the real call takes effect, partial writes are not simulated",
]


def _hist_key(h):
    return hashlib.sha1(json.dumps(h, sort_keys=True).encode()).hexdigest()


def _tags(real):
    out = []
    for r in real:
        st = r[1]
        out.append(st.split()[0][4:])
    return out


def check_ob_batch(ctx, runner, hists, stats, fail_sink):
    """run a batch of OverflowableBuffer histories; returns number of ops compared"""
    lines = []
    for h in hists:
        lines += hb.model_lines(h)
    ans = runner.query(lines)
    i = 0
    nops = 0
    for h in hists:
        n = len(h[2]) + 1
        real = hb.run_real_ob(h)
        dall = hb.compare_ob_all(h, real, ans[i:i + n])
        d = hb.compare_ob(h, real, ans[i:i + n]) if dall else None
        if "model" in dall:
            stats["model_disagreements"] += 1
        i += n
        nops += n - 1
        # statistics
        tags = _tags(real)
        trans = 0
        for a, b in zip(tags, tags[1:]):
            if a != b:
                trans += 1
                stats["transitions"][a + ">" + b] = stats["transitions"].get(a + ">" + b, 0) + 1
        consumed = False
        for op, r in zip(h[2], real[1:]):
            k = op[0] if op[0] != "get" else ("get_consume" if op[2] else "get_peek")
            stats["ops"][k] = stats["ops"].get(k, 0) + 1
            o = r[0].split(":")[0] if not r[0].startswith("exn") else r[0]
            stats["outputs"][o] = stats["outputs"].get(o, 0) + 1
            if op[0] == "append":
                ln = len(op[1]) // 2
                lim = h[0]
                c = ("0" if ln == 0 else "1" if ln == 1 else "limit-1" if ln == lim - 1 else "limit" if ln == lim
                     else "limit+1" if ln == lim + 1 else "<limit" if ln < lim else ">limit")
                stats["append_size_vs_limit"][c] = stats["append_size_vs_limit"].get(c, 0) + 1
            if (op[0] == "skip" and op[1] > 0 and r[0] == "unit") or (op[0] == "get" and op[2] and r[0] not in ("bytes:-",) and r[0].startswith("bytes:")):
                consumed = True
        stats["histories"] += 1
        if trans and consumed:
            stats["nontrivial"].add(_hist_key(h))
        if d is not None:
            fail_sink.append((h, d))
    return nops


def ob_fails(runner, h):
    try:
        ans = runner.query(hb.model_lines(h))
        return hb.compare_ob(h, hb.run_real_ob(h), ans)
    except Exception as e:  # noqa
        return (0, "machinery", "no exception", repr(e))


def check_ro_batch(ctx, runner, cases, stats, fail_sink):
    lines = []
    for c in cases:
        lines += hb.ro_model_lines(c)
    ans = runner.query(lines)
    i = 0
    nops = 0
    for c in cases:
        n = len(c[4]) + 2
        real, verdict = hb.run_real_ro(c)
        d = hb.compare_ro(c, real, verdict, ans[i:i + n])
        i += n
        nops += n - 1
        stats["ro_cases"] += 1
        stats["ro_filekind"][c[0]] = stats["ro_filekind"].get(c[0], 0) + 1
        for op, r in zip(c[4], real[2:]):
            stats["ops"][op[0]] = stats["ops"].get(op[0], 0) + 1
            o = r[0].split(":")[0] if not r[0].startswith("exn") else r[0]
            stats["outputs"][o] = stats["outputs"].get(o, 0) + 1
        if any(op[0] in ("roget", "roskip") for op in c[4]) and c[1]:
            stats["nontrivial"].add(_hist_key(list(c)))
        if d is not None:
            fail_sink.append((c, d))
    return nops


# site classes where a fault only keeps the weaker guarantee "nothing destroyed": none is open
# (the three that were -- copy, create_append, append -- were repaired by /repo commit c9585b7)
KF_SITE_CLASS = {}

# Faults injected into seek()/tell(): a failing *compensating* seek (the seek back to the read
# position in a finally block) cannot be compensated by any code, so for these two methods the
# specification is the weaker one -- the exception propagates and nothing is destroyed (the
# buffer is open, every queued byte is still stored, the counters are those of the queue).
# lseek on a regular file and BytesIO.seek do not fail for lack of space or descriptors; these
# injections are kept as a robustness probe of the "nothing destroyed" part only.
WEAK_IS_ENOUGH = ("seek", "tell")


def _violates(v, fault, where):
    if v == "bad":
        return True
    if v == "weak":
        return fault[1] not in WEAK_IS_ENOUGH and where not in KF_SITE_CLASS
    return False


def check_fault_batch(ctx, runner, hists, stats, sink, kf_sink):
    """operating-system faults at every representation change of every history"""
    pending = []   # (case, rows, model lines)
    nruns = 0
    for h in hists:
        sites = hb.fault_sites(h)
        if not sites:
            continue
        stats["fault_histories"] += 1
        for site in sites:
            at = site[0]
            stats["fault_sites"] += 1
            for f in hb.faults_at(site, h):
                rows, fired, where = hb.run_faulted(h, at, f)
                nruns += len(h[2])
                qb = b"" if at == 0 else rows[at - 1][2]
                if qb is None:
                    continue
                v, d = hb.judge_faulted(h, at, f, rows, fired, where, qb)
                k = "%s:%s" % (where, v)
                stats["fault_verdicts"][k] = stats["fault_verdicts"].get(k, 0) + 1
                stats["fault_runs"] += 1
                if v == "notfired":
                    continue
                tk = "%s>%s" % (site[1], site[2])
                stats["fault_transitions"][tk] = stats["fault_transitions"].get(tk, 0) + 1
                stats["fault_exc"][f[3]] = stats["fault_exc"].get(f[3], 0) + 1
                stats["nontrivial"].add(_hist_key([list(h), at, list(f)]))
                case = (h, at, f)
                obs = "%s | %s" % (rows[at][0], rows[at][1])
                if _violates(v, f, where):
                    sink.append((case, (at + 1, "fault", d, obs), where))
                elif v == "weak" and f[1] in WEAK_IS_ENOUGH:
                    stats["fault_weak_seek_tell"] = stats.get("fault_weak_seek_tell", 0) + 1
                elif v == "weak":
                    cls = KF_SITE_CLASS[where]
                    old = kf_sink.get(cls)
                    if old is None or len(json.dumps(case)) < len(json.dumps(old[0])):
                        kf_sink[cls] = (case, (at + 1, "fault", d, obs), where)
                    stats["fault_kf"][cls] = stats["fault_kf"].get(cls, 0) + 1
                ml = hb.fault_model_lines(h, at, f, where)
                if ml is not None and (f[1] == "ctor" or where in ("create_append", "append")
                                       or (where == "copy" and site[3].get(("tmp", "write")) == 1)):
                    pending.append((case, rows, ml, where))
    if pending:
        lines = []
        for _, _, ml, _ in pending:
            lines += ml
        ans = runner.query(lines)
        i = 0
        for case, rows, ml, where in pending:
            d = hb.compare_faulted_model(rows, ans[i:i + len(ml)])
            i += len(ml)
            stats["fault_model_compared"] += 1
            if d is not None:
                stats["fault_model_disagreements"] += 1
                sink.append((case, d, where))
    return nruns


def fault_replay_dict(case, d, where):
    h, at, f = case
    import waitress.buffers as wb
    return {"kind": "fault", "limit": h[0], "overflow": h[1], "ops": h[2], "at": at, "fault": list(f), "site": where,
            "copy_bytes": hb.copy_bytes_for(h, wb.COPY_BYTES), "step": d[0], "against": d[1],
            "expected": d[2] if d[1] == "model" else "the injected exception propagates and the buffer is still the byte queue it was (for append: possibly plus the appended bytes); len truthful; later operations behave",
            "observed": d[3] if d[1] == "model" else "%s -- %s" % (d[3], d[2]),
            "failing_input_found": True}


def run(ctx):
    ctx.gate()
    props_ok, failing, log = ctx.props()
    ctx.build(["Model/Buffers.vo", "Spec/Fifo.vo"])
    runner = ctx.runner("buffers", "ExtBuffers.v")
    if runner is None:
        ctx.oblige("extracted buffer model runner builds", False, "see notes")
        return
    import waitress.buffers as wb

    rng = ctx.rng
    thorough = ctx.tier == "thorough"
    real_limit = wb.STRBUF_LIMIT
    stats = {"transitions": {}, "ops": {}, "outputs": {}, "append_size_vs_limit": {}, "histories": 0,
             "ro_cases": 0, "ro_filekind": {}, "nontrivial": set(), "model_disagreements": 0,
             "fault_histories": 0, "fault_sites": 0, "fault_runs": 0, "fault_verdicts": {}, "fault_transitions": {},
             "fault_exc": {}, "fault_kf": {}, "fault_model_compared": 0, "fault_model_disagreements": 0}
    ob_fail = []
    ro_fail = []
    evaluations = 0

    small, big = hb.threshold_grid(real_limit)

    # 1. random, boundary-biased histories over the threshold grid (small limits)
    per_pair = 1000 if thorough else 30
    batch = []
    for (limit, ovf) in small:
        for _ in range(per_pair):
            batch.append(hb.gen_history(rng, limit, ovf, rng.randint(1, 35)))
        if len(batch) >= 3000:
            evaluations += check_ob_batch(ctx, runner, batch, stats, ob_fail)
            batch = []
    evaluations += check_ob_batch(ctx, runner, batch, stats, ob_fail)
    n_random_small = stats["histories"]

    # 2. the real STRBUF_LIMIT
    per_pair = 100 if thorough else 12
    batch = []
    for (limit, ovf) in big:
        for _ in range(per_pair):
            batch.append(hb.gen_history(rng, limit, ovf, rng.randint(1, 25)))
        if len(batch) >= 40:
            evaluations += check_ob_batch(ctx, runner, batch, stats, ob_fail)
            batch = []
    evaluations += check_ob_batch(ctx, runner, batch, stats, ob_fail)
    n_random_big = stats["histories"] - n_random_small

    # 3. exhaustive short histories over a tiny alphabet
    exh_len = 4 if thorough else 3
    n_exh = 0
    for (which, elimit, ovf, elen) in [("A", 4, o, exh_len) for o in (0, 3, 4, 6, 1 << 20)] + \
                                      [("B", 3, o, exh_len + 1) for o in (0, 5, 8)]:
        batch = []
        for h in hb.exhaustive_histories(elimit, ovf, elen, which):
            batch.append(h)
            if len(batch) >= 4000:
                evaluations += check_ob_batch(ctx, runner, batch, stats, ob_fail)
                n_exh += len(batch)
                batch = []
        evaluations += check_ob_batch(ctx, runner, batch, stats, ob_fail)
        n_exh += len(batch)

    # 4. the read-only buffer
    n_ro = 10000 if thorough else 800
    cases = [hb.gen_ro_case(rng, big=(k % 40 == 0)) for k in range(n_ro)]
    for k in range(0, len(cases), 2000):
        evaluations += check_ro_batch(ctx, runner, cases[k:k + 2000], stats, ro_fail)

    # 5. operating-system faults at every representation change
    fault_fail = []
    fault_kf = {}
    fh = []
    grid = [(4, 6), (4, 3), (4, 0), (4, 4), (8, 12), (2, 7), (16, 17), (1, 1), (8, 1 << 20)]
    for (limit, ovf) in grid:
        for _ in range(150 if thorough else 25):
            fh.append(hb.gen_history(rng, limit, ovf, rng.randint(2, 14), p_invalid=0.03, p_close=0))
    for ovf in ((0, 3, 4, 6) if thorough else (3, 6)):
        fh += list(hb.exhaustive_histories(4, ovf, exh_len, "A"))
    # the real STRBUF_LIMIT and COPY_BYTES: a spill of ~20 kB
    for _ in range(6 if thorough else 2):
        fh.append(hb.gen_history(rng, real_limit, 2 * real_limit + 3616, rng.randint(4, 10), p_invalid=0, p_close=0))
    for k in range(0, len(fh), 1500):
        evaluations += check_fault_batch(ctx, runner, fh[k:k + 1500], stats, fault_fail, fault_kf)
    ctx.oblige("K-buf-fault + search: with an operating-system fault injected at every representation change (file constructors with EMFILE/ENOSPC/EACCES/MemoryError; every call of write/seek/tell/read on the files involved) "
               "the exception propagates, no queued byte is destroyed, and -- outside the open known-finding site classes -- the buffer is still the same byte queue; constructor and first-copy-write faults agree with the model (step_f)",
               not fault_fail, "%d failing fault runs" % len(fault_fail))

    # -- verdicts
    by_which = {"model": [], "queue": [], "spec": [], "property": [], "machinery": []}
    for h, d in ob_fail:
        by_which.setdefault(d[1], []).append(("ob", h, d))
    for c, d in ro_fail:
        by_which.setdefault(d[1], []).append(("ro", c, d))

    ctx.oblige("K-buf: extracted model agrees with the real buffers after every operation (output, len, representation, overflowed, remain, file position, file content)",
               not by_which["model"] and not by_which["machinery"] and not stats["model_disagreements"],
               "%d disagreeing histories" % (len(by_which["model"]) + len(by_which["machinery"]) + stats["model_disagreements"]))
    ctx.oblige("search: real buffers behave as the FIFO queue (extracted Spec/Fifo.v and an independent Python queue) on every generated history",
               not by_which["queue"] and not by_which["spec"] and not by_which["property"],
               "%d departing histories" % (len(by_which["queue"]) + len(by_which["spec"]) + len(by_which["property"])))

    # report a few, smallest first, shrunk; one per (kind of failure, operation kind)
    reported = 0
    seen = set()
    allf = sorted(by_which["queue"] + by_which["spec"] + by_which["property"] + by_which["model"] + by_which["machinery"],
                  key=lambda t: (len(t[1][2]) if t[0] == "ob" else len(t[1][4]), len(t[1][2 if t[0] == "ob" else 1])))
    for kind, case, d in allf:
        if reported >= 5:
            break
        if kind == "ob":
            h = case
            which = d[1]
            step = d[0]
            opk = h[2][step - 1][0] if 0 < step <= len(h[2]) else "init"
            key = "ob:%s:%s" % (which, opk)
            if key in seen:
                continue
            seen.add(key)
            budget = [120 if h[0] <= 64 else 25]

            def fails(c, which=which, budget=budget):
                if budget[0] <= 0:
                    return False
                budget[0] -= 1
                r = ob_fails(runner, c)
                return r is not None and r[1] == which
            h2 = hb.shrink_ob((h[0], h[1], h[2][:step]), fails) if which != "machinery" else h
            d2 = ob_fails(runner, h2)
            if d2 is None or d2[1] != which:
                h2, d2 = h, d
            step = d2[0]
            reported += 1
            what = {
                "model": "OverflowableBuffer: real code and model disagree at operation %d (%s)" % (step, opk),
                "queue": "OverflowableBuffer departs from the byte queue at operation %d (%s): %s" % (step, opk, d2[2]),
                "spec": "OverflowableBuffer departs from Spec/Fifo.v at operation %d (%s)" % (step, opk),
            }.get(which, "OverflowableBuffer: %s at operation %d" % (which, step))
            ctx.report(key, what,
                       {"kind": "ob", "limit": h2[0], "overflow": h2[1], "ops": h2[2], "step": step, "against": which,
                        "copy_bytes": hb.copy_bytes_for(h2, wb.COPY_BYTES),
                        "expected": d2[2], "observed": d2[3], "failing_input_found": True})
        else:
            c = case
            step = d[0]
            key = "ro:%s:%s" % (d[1], c[4][step - 2][0] if step >= 2 and step - 2 < len(c[4]) else "prepare")
            if key in seen:
                continue
            seen.add(key)
            reported += 1
            ctx.report(key, "ReadOnlyFileBasedBuffer: %s at step %d: %s" % (d[1], step, d[2][:200]),
                       {"kind": "ro", "filekind": c[0], "content_hex": c[1], "pos": c[2], "size": c[3], "ops": c[4][:max(0, step - 1)],
                        "step": step, "against": d[1], "expected": d[2], "observed": d[3], "failing_input_found": True})

    seenf = set()
    for case, d, where in sorted(fault_fail, key=lambda t: len(json.dumps(t[0])))[:40]:
        key = "fault:%s:%s:%s.%s" % (d[1], where, case[2][0], case[2][1])
        if key in seenf or len(seenf) >= 4:
            continue
        seenf.add(key)
        h, at, f = case
        ctx.report(key, "OverflowableBuffer under an injected %s in %s.%s (call %d) at operation %d (%s, site %s): %s" % (
            f[3], f[0], f[1], f[2], at + 1, h[2][at][0], where, d[2] if d[1] != "model" else "real code and model (step_f) disagree"),
            fault_replay_dict((tuple([h[0], h[1], h[2][:max(at + 1, d[0])]]), at, f), d, where))
    for cls, (case, d, where) in sorted(fault_kf.items()):
        h, at, f = case
        ctx.report("fault-kf:" + cls, "known finding %s: %s" % (cls, d[2]),
                   fault_replay_dict((tuple([h[0], h[1], h[2][:at + 1]]), at, f), d, where), kf_class=cls)

    if not props_ok and not ctx.violations:
        ctx.report("c17-proof-broken", "Props/C17.v no longer checks (%s); no disagreeing history was found on the real code" % failing,
                   {"failing_input_found": False, "broken": "Props/C17.v via %s" % failing,
                    "log_tail": (log or "")[-1500:]})

    samples = []
    h = hb.gen_history(ctx.rng.__class__(1), 8, 12, 8)
    samples.append({"limit": h[0], "overflow": h[1], "ops": [hb.op_line(o)[:40] for o in h[2]]})
    c = hb.gen_ro_case(ctx.rng.__class__(2))
    samples.append({"readonly": {"file": c[0], "content_len": len(c[1]) // 2, "pos": c[2], "size": c[3],
                                 "ops": [hb.op_line(o) for o in c[4]]}})
    ctx.coverage.update({
        "evaluations": evaluations,
        "distinct_nontrivial": len(stats["nontrivial"]),
        "rule": "evaluations = operations executed on the real classes and compared with the model and the specification; "
                "non-trivial = distinct histories with at least one representation change and at least one byte consumed, "
                "plus distinct read-only cases over a non-empty file with at least one get/skip",
        "samples": samples,
        "histories": stats["histories"],
        "histories_random_small_limits": n_random_small,
        "histories_random_real_limit": n_random_big,
        "histories_exhaustive": n_exh,
        "exhaustive_rule": "A: every sequence of exactly %d operations over a 13-operation alphabet (append 1/limit-1/limit+1, get -1/2/limit+5 with and without skip, skip 1/limit-1/len with and without allow_prune, getfile), STRBUF_LIMIT=4, overflow in {0,3,4,6,2^20}; "
                           "B: every sequence of exactly %d operations over a 9-operation alphabet (append 2/limit, get(1,skip), get(3), skip 2/len/0, len, close), STRBUF_LIMIT=3, overflow in {0,5,8}" % (exh_len, exh_len + 1),
        "threshold_grid": {"small_limits": [list(p) for p in small], "real_limit": [list(p) for p in big]},
        "readonly_cases": stats["ro_cases"],
        "readonly_file_kinds": stats["ro_filekind"],
        "representation_transitions": stats["transitions"],
        "operation_kinds": stats["ops"],
        "output_kinds": stats["outputs"],
        "append_size_vs_limit": stats["append_size_vs_limit"],
        "fault_histories_with_a_representation_change": stats["fault_histories"],
        "fault_sites": stats["fault_sites"],
        "fault_runs": stats["fault_runs"],
        "fault_verdicts_by_site": stats["fault_verdicts"],
        "fault_runs_by_transition": stats["fault_transitions"],
        "fault_exception_kinds": stats["fault_exc"],
        "fault_runs_compared_with_model": stats["fault_model_compared"],
        "fault_known_finding_runs": stats["fault_kf"],
        "fault_rule": "each history is first run fault-free with every file-object call recorded; for every operation that changes the representation it is re-run once per fault: "
                      "TemporaryFile() raising EMFILE/ENOSPC/EACCES/MemoryError, BytesIO() raising MemoryError, and the nth call (every n) of write/seek/tell/read on the temporary file (ENOSPC) and on the BytesIO (MemoryError); "
                      "site = the part of buffers.py in which the exception was raised (ctor, copy = FileBasedBuffer.__init__ loop, create_append = _create_buffer's buf.append(strbuf), append = FileBasedBuffer.append, get, skip); "
                      "verdict ok = queue intact (or plus the appended bytes) and later operations behave; weak = buffer open, every queued byte still stored, counters right, but position/strbuf wrong; bad = anything else",
    })


def replay(data):
    """re-run one replay dict against the code under WAITRESS_REPO; 0 if it no longer fails"""
    path, log = vcommon.build_runner("buffers", "ExtBuffers.v")
    runner = vcommon.Runner(path) if path else None
    if data.get("kind") == "fault":
        h = (data["limit"], data["overflow"], data["ops"])
        at, f = data["at"], tuple(data["fault"])
        rows, fired, where = hb.run_faulted(h, at, f)
        qb = b"" if at == 0 else rows[at - 1][2]
        v, why = hb.judge_faulted(h, at, f, rows, fired, where, qb)
        for i, (r, op) in enumerate(zip(rows, [hb.op_line(x)[:40] for x in h[2]])):
            print("  %-24s -> %s | %s%s" % (op, r[0], r[1], "   <- %s injected into %s.%s call %d (site %s)" % (f[3], f[0], f[1], f[2], where) if i == at else ""))
        d = None
        ml = hb.fault_model_lines(h, at, f, where)
        if runner is not None and ml is not None and (f[1] == "ctor" or where in ("create_append", "append") or data.get("against") == "model"):
            d = hb.compare_faulted_model(rows, runner.query(ml))
        kf_open = {k.get("class") for k in vcommon.known_findings("C17")}
        if v == "bad" or (v == "weak" and f[1] not in WEAK_IS_ENOUGH and KF_SITE_CLASS.get(where) not in kf_open):
            d = d or (at + 1, "fault", why, rows[at][0])
        elif v == "weak":
            print("verdict weak (accepted: failing seek/tell, nothing destroyed): %s" % why)
        else:
            print("verdict %s" % v)
    elif data.get("kind") == "ro":
        case = (data["filekind"], data["content_hex"], data["pos"], data["size"], data["ops"])
        real, verdict = hb.run_real_ro(case)
        d = None
        if runner is not None:
            d = hb.compare_ro(case, real, verdict, runner.query(hb.ro_model_lines(case)))
        elif verdict is not None:
            d = (verdict[0], "property", verdict[1], "")
        for (o, s), op in zip(real, ["new", "prepare"] + [hb.op_line(x) for x in case[4]]):
            print("  %-16s -> %s | %s" % (op, o, s))
    else:
        h = (data["limit"], data["overflow"], data["ops"])
        real = hb.run_real_ob(h)
        d = None
        if runner is not None:
            d = hb.compare_ob(h, real, runner.query(hb.model_lines(h)))
        else:
            for i, r in enumerate(real):
                if r[2] is not None:
                    d = (i, "queue", r[2], r[0])
                    break
        for r, op in zip(real, ["new"] + [hb.op_line(x)[:40] for x in h[2]]):
            print("  %-24s -> %s | %s%s" % (op, r[0], r[1], (" | QUEUE: " + r[2]) if r[2] else ""))
    if d is None:
        print("no disagreement any more")
        return 0
    print("still fails at step %d against %s:\n  expected %s\n  observed %s" % (d[0], d[1], d[2], d[3]))
    return 1
