"""C02 -- parsing does not depend on how the byte stream is split across reads.

Decided by: Coq theorems over the transliterated receivers / parser / channel
loop (Props/C02.v: one-byte split lemmas for each incremental component, the
channel-level theorem for every list of reads), tied to the code by the
K-chanseq correspondence (extracted model vs the real HTTPChannel.received on
the same reads, every stream under several segmentations, all carry fields
compared after every read), plus a search that compares the REAL channel's
observable outcome across segmentations of the same stream."""
import hashlib
import itertools
import json

from harness import gen_http
from harness import parser_corr as PC
from harness import parser_h as H
from harness import split_search as S
from lib import vcommon
from lib.vcommon import hexb

LEVEL = "proof"
ASSUMPTIONS = [
    "the sequential model ChanSeq.v (I/O-thread side of HTTPChannel.received, no worker interleaving) speaks for the code: checked by K-chanseq on every run",
    "observation = events (100-continue sent / request queued with every attribute a task reads and its body), cut after the first refused request; carry fields (header_plus, control_line, chunk_end, trailer, byte counters) are not observed",
    "split_uri on bracketed IPv6 authorities is not modelled (model answers 'unmodelled'; such cases are counted and skipped in K-chanseq, and still searched on the real code)",
]

MODEL_VO = ["Lib/PyBytes.vo", "Gen/GenRegex.vo", "Model/Receiver.vo", "Model/UrlSplit.vo", "Model/Parser.vo",
            "Model/ChanSeq.vo"]

TARGETED = [
    # F12 shape and neighbours
    (262144, 10, b"POST / HTTP/1.1\r\nTransfer-Encoding: chunked\r\n\r\nZZ\r\n" + b"x" * 20),
    (262144, 10, b"POST / HTTP/1.1\r\nTransfer-Encoding: chunked\r\n\r\n1;=\r\n" + b"x" * 20),
    (262144, 12, b"POST / HTTP/1.1\r\nTransfer-Encoding: chunked\r\n\r\n1\r\naXY" + b"x" * 20),
    (262144, 30, b"POST / HTTP/1.1\r\nTransfer-Encoding: chunked\r\n\r\n3\r\nabc\r\n0\r\nX: y\r\n\r\nGET / HTTP/1.1\r\n\r\n"),
    (262144, 1000, b"POST / HTTP/1.1\r\nTransfer-Encoding: chunked\r\n\r\n3\r\nabc\r\r\n0\r\n\r\n"),
    (262144, 1000, b"POST / HTTP/1.1\r\nTransfer-Encoding: chunked\r\n\r\n3\r\nabc\r\n0\r\n\r\r\n\r\nGET / HTTP/1.1\r\n\r\n"),
    # expect
    (262144, 1000, b"POST /a HTTP/1.1\r\nExpect: 100-continue\r\nContent-Length: 3\r\n\r\nabcGET /b HTTP/1.1\r\n\r\n"),
    (262144, 1000, b"GET /a HTTP/1.1\r\nExpect: 100-continue\r\n\r\nGET /b HTTP/1.1\r\nHost: x\r\n\r\n"),
    (262144, 10, b"POST / HTTP/1.1\r\nExpect: 100-continue\r\nContent-Length: 100\r\n\r\n" + b"x" * 30),
    (262144, 1000, b"GET /a HTTP/1.1\r\n\r\nPOST /b HTTP/1.1\r\nExpect: 100-continue\r\nContent-Length: 3\r\n\r\nabc"),
    # header limit
    (40, 1000, b"GET /aaaaaaaaaaaaaaaaaaaaaaaaaaaaaaaaaaaaaaaaaaaaaa HTTP/1.1\r\nHost: x\r\n\r\nGET / HTTP/1.1\r\n\r\n"),
    (30, 1000, b"\r\n\r\n\r\n\r\nGET / HTTP/1.1\r\nHost: x\r\n\r\n"),
    (18, 1000, b"GET / HTTP/1.1\r\n\r\nGET / HTTP/1.1\r\n\r\n"),
]


def small_cases(tier, rng):
    """streams built from gen_http.SMALL_ATOMS of at most 12 bytes: every cut set"""
    out = []
    atoms = gen_http.SMALL_ATOMS
    seen = set()
    for n in (1, 2, 3, 4):
        for t in itertools.product(range(len(atoms)), repeat=n):
            s = b"".join(atoms[i] for i in t)
            if 2 <= len(s) <= 12 and s not in seen:
                seen.add(s)
                out.append(s)
    out.sort()
    rng.shuffle(out)
    out = out[:140] if tier == "quick" else out[:2500]
    return out


def chunk_tail_streams():
    """a fixed chunked head followed by every short tail over the framing
    alphabet: the carry fields of the chunked receiver at every cut"""
    head = b"POST / HTTP/1.1\r\nTransfer-Encoding: chunked\r\n\r\n"
    alpha = [b"\r", b"\n", b"0", b"2", b"a", b";", b"\r\n"]
    out = []
    for n in range(1, 5):
        for t in itertools.product(alpha, repeat=n):
            out.append(head + b"".join(t))
    return head, out


def run(ctx):
    ctx.translate({"GenRegex"})
    ctx.gate()
    props_ok, failing, log = ctx.props()
    if props_ok:
        ctx.findings(["Findings/C02_KF1.v"])
    ctx.build([v for v in MODEL_VO])
    runner = ctx.runner("parser", "ExtParser.v")
    rng = ctx.rng
    thorough = ctx.tier == "thorough"
    evaluations = 0
    nontrivial = set()
    samples = []

    # ---- K-chanseq: model vs real channel, every stream under several segmentations
    if runner is None:
        ctx.oblige("extracted parser/channel runner builds", False, "see notes")
    else:
        cases = PC.build_cases(rng, 500 if thorough else 110, small_atoms=2)
        # all cut sets of short streams (thorough: every stream of <= 12 bytes from the atoms)
        smalls = small_cases(ctx.tier, rng)
        nall = 0
        for s in (smalls[:2000] if thorough else smalls[:40]):
            for cuts in S.all_cutsets(len(s)):
                if cuts:
                    cases.append(("chan", 262144, 1073741824, S.pieces(s, cuts), {"stream": "small-allcuts"}))
                    nall += 1
        for mh, mb, s in TARGETED:
            for reads in [[s], [s[i:i + 1] for i in range(len(s))]] + gen_http.segmentations(rng, s, k=2)[2:]:
                cases.append(("chan", mh, mb, reads, {"stream": "targeted"}))
        stats, bad = PC.run_cases(runner, cases)
        evaluations += stats["evaluations"]
        ok = not bad
        if bad:
            d = PC.shrink(runner, bad[0])
            ctx.report("k-chanseq:" + hashlib.sha1(json.dumps(d["reads"]).encode()).hexdigest()[:12],
                       "model and real HTTPChannel.received disagree: %s" % (d["difference"],),
                       {"kind": "k-chanseq", "mh": d["mh"], "mb": d["mb"], "reads_hex": d["reads"],
                        "expected": d["model"][-1][:400], "observed": d["impl"][-1][:400],
                        "difference": d["difference"], "failing_input_found": True})
        ctx.oblige("K-chanseq: extracted model = real HTTPChannel.received on every generated case (all carry fields, after every read)", ok,
                   "" if ok else "%d disagreements" % len(bad))
        samples.append({"suite": "k-chanseq", "cases": stats["evaluations"], "reads": stats["reads"],
                        "unmodelled_skipped": stats["unmodelled"], "allcuts_cases": nall,
                        "streams": stats["streams"], "errors": stats["errors"]})
        ctx.coverage["k_chanseq"] = {k: stats[k] for k in ("evaluations", "reads", "unmodelled", "streams", "framings",
                                                          "mutations", "errors", "requests_completed", "distinct_nontrivial")}

    # ---- search: the real channel across segmentations
    classes = {}
    kf_examples = {}
    unexplained = []
    seg_evals = 0
    streams = []
    nstreams = 400 if thorough else 90
    for i in range(nstreams):
        s, tags = gen_http.gen_stream(rng, "mutation" if i % 2 else "grammar")
        for mh, mb in gen_http.limits_for(rng, s):
            streams.append((mh, mb, s, tags.get("stream")))
    for mh, mb, s in TARGETED:
        streams.append((mh, mb, s, "targeted"))
    for s in small_cases(ctx.tier, rng):
        streams.append((262144, 1073741824, s, "small"))
        streams.append((max(1, len(s) - 2), 3, s, "small"))
    head, tails = chunk_tail_streams()
    rng.shuffle(tails)
    tails = tails[:150] if not thorough else tails
    for s in tails:
        streams.append((262144, len(s) - len(head) + rng.choice([-1, 0, 1, 50]), s, "chunk-tail"))
    dist = {}
    for mh, mb, s, kind in streams:
        mb = max(mb, 1)
        if kind == "chunk-tail":
            # only the cuts inside the tail matter
            n0 = len(head)
            segs = [S.pieces(s, [n0 + c for c in cuts]) for cuts in S.all_cutsets(len(s) - n0 + 1)
                    if cuts]
            segs = [sg for sg in segs if len(sg) > 1]
        else:
            segs = S.segmentations_for(rng, s, ctx.tier)
        n, wc, diffs = S.search_stream(mh, mb, s, segs)
        seg_evals += n
        dist[kind] = dist.get(kind, 0) + n
        if any(e[0] == "request" and e[1]["err"] == "none" for e in wc):
            nontrivial.add(S.obs_digest((mh, mb, wc)))
        for reads, oc, cl in diffs:
            classes[cl] = classes.get(cl, 0) + 1
            if cl is None:
                unexplained.append((mh, mb, s, reads, wc, oc))
            elif cl not in kf_examples:
                kf_examples[cl] = (mh, mb, s, reads, wc, oc)
    evaluations += seg_evals
    for cl, (mh, mb, s, reads, wc, oc) in kf_examples.items():
        ctx.report("kf:" + cl, "known split dependence (%s)" % cl,
                   {"kind": "split", "mh": mh, "mb": mb, "stream_hex": s.hex(), "reads_hex": [hexb(r) for r in reads],
                    "expected": repr(wc)[:600], "observed": repr(oc)[:600], "failing_input_found": True},
                   kf_class=cl)
    reported = 0
    for mh, mb, s, reads, wc, oc in sorted(unexplained, key=lambda u: len(u[2]))[:3]:
        s2, reads2 = S.shrink(mh, mb, s, reads)
        a, _ = S.observe(mh, mb, [s2])
        b, _ = S.observe(mh, mb, reads2)
        ctx.report("split:" + hashlib.sha1(s2 + bytes(len(r) for r in reads2[:50])).hexdigest()[:12],
                   "the real channel's outcome depends on the segmentation of %r (cuts %r)" % (s2[:80], [len(r) for r in reads2][:8]),
                   {"kind": "split", "mh": mh, "mb": mb, "stream_hex": s2.hex(), "reads_hex": [hexb(r) for r in reads2],
                    "expected": repr(S.cut(a))[:800], "observed": repr(S.cut(b))[:800], "failing_input_found": True})
        reported += 1
    ctx.oblige("search: the real channel's observable outcome is the same for every segmentation tried (outside open known-finding classes)",
               not unexplained, "" if not unexplained else "%d segmentations differ" % len(unexplained))
    samples.append({"suite": "split-search", "streams": len(streams), "evaluations": seg_evals,
                    "per_stream_kind": dist, "difference_classes": {str(k): v for k, v in classes.items()}})

    if not props_ok and not ctx.violations:
        ctx.report("c02-proof-broken", "Props/C02.v no longer checks (%s); no segmentation-dependent stream found by the search" % failing,
                   {"failing_input_found": False, "broken": "Props/C02.v via %s" % failing,
                    "log_tail": (log or "")[-1500:]})

    ctx.coverage.update({
        "evaluations": evaluations,
        "distinct_nontrivial": len(nontrivial),
        "rule": "K-chanseq: grammar/mutation/small-atom streams x limits x (whole, byte-wise, random cuts, cuts inside every CRLF; all 2^(n-1) cut sets for sampled streams of <= 12 bytes); search: same streams + targeted + chunked tails of <= 4 framing atoms, each under every single cut, byte-wise, CRLF cuts, random cut sets (thorough: all double cuts up to 45 bytes); non-trivial = distinct whole-stream observations that contain a request delivered without error",
        "samples": samples,
        "input_distribution": dist,
    })


def replay(data):
    if data.get("kind") == "k-chanseq":
        ctx = vcommon.Ctx("C02", "quick", 0)
        runner = ctx.runner("parser", "ExtParser.v")
        reads = [vcommon.unhexb(r) for r in data["reads_hex"]]
        m = runner.query([H.model_chan_cmd(data["mh"], data["mb"], reads)])[0].split(" ; ")
        i = H.impl_chan(data["mh"], data["mb"], reads)
        print("model:", m[-1][:300])
        print("impl: ", i[-1][:300])
        return 0 if m == i else 1
    s = bytes.fromhex(data["stream_hex"])
    reads = [vcommon.unhexb(r) for r in data["reads_hex"]]
    a, _ = S.observe(data["mh"], data["mb"], [s])
    b, _ = S.observe(data["mh"], data["mb"], reads)
    ca, cb = S.cut(a), S.cut(b)
    print("stream=%r cuts=%r" % (s, [len(r) for r in reads]))
    print("whole:", ca)
    print("split:", cb)
    if ca == cb:
        return 0
    return 0 if S.classify(ca, cb) is not None else 1
