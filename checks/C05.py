"""C05 -- no lost wake-up: responses are delivered without relying on the poll timeout.

Decided by: an inductive invariant proved in Coq for ALL schedules of the narrow model
coq/Model/ChanWake.v (Props/C05.v), tied to the code by (a) an ast shape audit of the
methods the model represents, (b) alignment of traces of the REAL HTTPChannel /
ThreadedTaskDispatcher / wasyncore.poll+poll2 (driven by harness/chan_world.World with no poll
timeout) with the extracted model: every labelled operation of the real run must be the next
label of the model's step and the abstract states must agree after every operation, and (c) the
property's monitor evaluated on the quiescent end state of every real run (the search)."""
import collections
import hashlib
import json
import os
import random

from lib import vcommon
from harness import chanwake as cw

LEVEL = "proof"
ASSUMPTIONS = [
    "sequential consistency at the granularity of Python attribute loads/stores and of the labelled lock, condition, socket and trigger operations (DESIGN.md 4.3); pre-emption inside C code is not modelled",
    "the client keeps reading: the socket is write-ready whenever it is polled for writing; the poll timeout does not exist (select blocks until a descriptor is ready or the trigger was pulled)",
    "maintenance() and cancel() (server shutdown) are outside the model; the model has one channel per I/O loop (runs with two connections are checked by the monitor only)",
    "the trigger is abstracted to one bit: pulled <-> the pipe is not empty; checked after every operation of the runs that use the real waitress.trigger.trigger over harness/fake_pipe.FakeOS (os.pipe/read/write/close faked, nothing else)",
    "outbuf_high_watermark >= 0 (no class of runs is excluded)",
]

EXPLORE_QUICK = ["0 1 2 0 1 1 1.3 400000 1 r", "0 2 0 1 1 2 1.3 400000 0 r.rr", "1 3 2 0 2 1 2 400000 1 rr"]
EXPLORE_THOROUGH = ["0 1 2 0 1 1 1.3 3000000 1 r", "0 2 0 1 1 2 1.3 3000000 0 r.rr", "1 2 2 1 2 2 3 3000000 1 r.rr",
                    "0 1 1 1 2 2 1.2 3000000 1 rr.h", "2 3 3 0 3 2 1.4 3000000 1 rr", "0 3 2 0 1 1 1.3 3000000 1 r",
                    "0 1 0 1 2 2 2 3000000 0 rh.b.r"]


def _hash(obj):
    return hashlib.sha1(json.dumps(obj, sort_keys=True).encode()).hexdigest()[:16]


def scenario_stream(rng, n):
    """The input distribution of the random part (kinds and proportions are reported)."""
    for _ in range(n):
        k = rng.random()
        if k < 0.58:
            yield "main", cw.gen_scenario(rng)
        elif k < 0.70:
            sc = cw.gen_scenario(rng, faults=rng.random() < 0.3, expect=False)
            for r in sc["reqs"]:
                r["wait"] = True
                r["chunks"] = [rng.choice([40, 300, 600]) for _ in range(rng.choice([1, 2, 3]))]
            sb = sc["adj"]["send_bytes"]
            sc["send_plan"] = [rng.choice([None, 20, 90, 0, ["left", sb], ["left", sb + 1], ["left", max(1, sb - 1)]])
                               for _ in range(rng.choice([2, 6]))]
            yield "streaming-app", sc
        elif k < 0.78:
            yield "watermark=0", cw.gen_scenario(rng, hw_choices=(0,), sb_choices=(1,))
        elif k < 0.85:
            yield "sendbytes>watermark", cw.gen_scenario(rng, hw_choices=(1, 60, 120), sb_choices=(150, 400), sb_any=True)
        else:
            sc = cw.gen_scenario(rng, faults=rng.random() < 0.5)
            sc["reqs"] = [{"path": "/a", "chunks": [rng.choice([10, 200])], "cl": True},
                          {"path": "/b", "chunks": [5], "cl": True, "expect": True}]
            sc["segs"] = [[0, 1], [2]]
            sc["gran"] = "attrs"
            yield "pipelined-expect", sc


class Book:
    """Collects what the runs show."""

    def __init__(self, ctx, runner):
        self.ctx = ctx
        self.runner = runner
        self.pending = []          # (kind, policy, sc, choices, cls, probs, kf, line, blocked_in_app)
        self.stats = collections.Counter()
        self.kinds = collections.Counter()
        self.policies = collections.Counter()
        self.distinct = set()
        self.samples = []
        self.all_conform = True
        self.all_verdicts = True
        self.all_monitor = True
        self.inv_ok = True
        self.validated = 0
        self.steps_fired = 0
        self.states_compared = 0

    def add(self, kind, policy, sc, world, cls, probs):
        ctx = self.ctx
        kf = None      # no known-finding class is open: every failing run is a violation
        self.kinds[kind] += 1
        self.policies[policy] += 1
        self.stats["end:" + cls] += 1
        if probs:
            rep = cw.replay_dict(sc, world, cls, probs)
            self.all_monitor = False
            ctx.report("monitor:" + probs[0].split(":")[0][:60] + ":" + _hash(sc),
                       "quiescent state of the real server violates C05: " + "; ".join(probs), rep)
        # runs with a second connection are monitored only (the model has one channel)
        line = cw.conform_lines(world, sc) if (world.channel is not None and self.runner is not None
                                               and not sc.get("conn2")) else None
        if sc.get("real_trigger"):
            self.stats["real_trigger_runs"] += 1
        if line is not None:
            self.distinct.add(_hash(line.split(" ")[7:] and [t.rsplit(";", 1)[0] for t in line.split(" ")[7:]]))
        self.pending.append((kind, policy, sc, list(world.sched.choices), cls, probs, kf, line))
        if len(self.pending) >= 200:
            self.flush()

    def flush(self):
        ctx = self.ctx
        todo = [p for p in self.pending if p[7] is not None]
        self.pending = []
        if not todo or self.runner is None:
            return
        answers = self.runner.query([p[7] for p in todo])
        for (kind, policy, sc, choices, cls, probs, kf, line), ans in zip(todo, answers):
            r = cw.parse_trace_answer(ans)
            rep = {"scenario": sc, "choices": choices, "failing_input_found": True}
            if not r["ok"]:
                self.all_conform = False
                rep.update({"expected": "every labelled operation of the real run is the next label of the model",
                            "observed": r["msg"][:600]})
                ctx.report("conform:" + _hash(r["msg"].split("||")[0].split(" ", 2)[-1][:80]),
                           "real trace is not a run of Model/ChanWake.v: " + r["msg"].split("||")[0][:300], rep)
                continue
            f = r["f"]
            self.validated += 1
            self.steps_fired += int(f["fired"])
            self.states_compared += int(f["compared"])
            if f.get("pending") != "0":
                self.stats["ended-mid-step"] += 1
            if int(f.get("invbad", "0")):
                self.inv_ok = False
                rep.update({"expected": "inv_ok (the proved invariant) on every model state visited",
                            "observed": "inv_ok false on %s state(s)" % f["invbad"]})
                ctx.report("inv:" + _hash(sc), "the invariant of Proof/ChanWakeInv.v fails on a state reached by a real run", rep)
            # the model's verdict about the end state against the monitor's
            if cls in ("quiescent", "finished") and f.get("pending") == "0":
                m_q = f["quiescent"] == "1"
                m_ok = f["c05"] == "1"
                if cls == "quiescent" and (not m_q or m_ok != (not probs)):
                    self.all_verdicts = False
                    rep.update({"expected": "model end state quiescent=%s c05_ok=%s" % (True, not probs),
                                "observed": "model: quiescent=%s c05_ok=%s; monitor: %s" % (m_q, m_ok, probs)})
                    ctx.report("verdict:" + _hash(sc), "model and monitor disagree about the end state", rep)
            if len(self.samples) < 6:
                self.samples.append({"kind": kind, "policy": policy, "gran": sc["gran"], "poll2": bool(sc["poll"]),
                                     "requests": len(sc["reqs"]), "end": cls, "model_steps": int(f["fired"]),
                                     "states_compared": int(f["compared"]), "schedule_len": len(choices)})


def run(ctx):
    import time
    t0 = time.time()
    ctx.gate()
    props_ok, failing, log = ctx.props()
    ctx.build(["Model/ChanWake.vo", "Proof/ChanWakeInv.vo"])
    runner = ctx.runner("chanwake", "ExtChanwake.v")
    ctx.oblige("extracted wake-up model runner builds", runner is not None, "see notes")
    rng = ctx.rng
    thorough = ctx.tier == "thorough"

    # (a) shape audit of the represented methods
    sig = cw.shape_signatures(os.path.join(vcommon.SRC, "waitress"))
    changed = sorted(k for k in cw.EXPECTED_SHAPE if sig.get(k) != cw.EXPECTED_SHAPE[k])
    ctx.oblige("K-shape: lock scopes, shared-attribute accesses, flag tests and wake-up calls of the %d modelled methods are those the model was written against" % len(cw.EXPECTED_SHAPE),
               not changed, "changed: " + ", ".join(changed))

    # (b) the model on its own: invariant and theorem predicate on every reachable state of small instances
    explored = []
    if runner is not None:
        for args, ans in zip(EXPLORE_THOROUGH if thorough else EXPLORE_QUICK,
                             runner.query(["explore " + a for a in (EXPLORE_THOROUGH if thorough else EXPLORE_QUICK)])):
            f = dict(t.split("=", 1) for t in ans.split() if "=" in t and not t.startswith("witness"))
            explored.append({"instance": args, "states": int(f.get("states", 0)), "quiescent": int(f.get("quiescent", 0)),
                             "bad": int(f.get("bad", -1)), "invbad": int(f.get("invbad", -1)), "truncated": f.get("truncated")})
        ctx.oblige("model explorer: on every reachable state of the small instances inv_ok holds and no quiescent state fails c05_ok / app_ok",
                   all(e["bad"] == 0 and e["invbad"] == 0 for e in explored), json.dumps(explored))

    book = Book(ctx, runner)
    t_build = time.time() - t0

    # (c) real code: seeded random and PCT schedules
    n_random = 4000 if thorough else 500
    for kind, sc in scenario_stream(rng, n_random):
        pname, pol = cw.gen_policy(rng)
        w, cls, probs = cw.run_one(sc, policy=pol)
        book.add(kind, pname, sc, w, cls, probs)

    # (c2) two connections sharing the map, the loop and the pool (monitor only)
    n_two = 600 if thorough else 90
    for _ in range(n_two):
        sc = cw.gen_two_conn(rng)
        pname, pol = cw.gen_policy(rng)
        w, cls, probs = cw.run_one(sc, policy=pol)
        book.add("two-connections", pname, sc, w, cls, probs)

    # (d) real code: bounded exhaustive exploration of tiny scenarios
    exhaustive = []
    for sc in cw.tiny_scenarios():
        def on_world(w, cls, probs, sc=sc):
            book.add("tiny", "exhaustive", sc, w, cls, probs)
        ex = sc.get("explore") or {"bound": 2 if thorough else 1, "quick": 50, "thorough": 1500}
        res = cw.explore_tiny(sc, ex["bound"], ex["thorough"] if thorough else ex["quick"], on_world)
        exhaustive.append({"requests": len(sc["reqs"]) + (len(sc["conn2"]["reqs"]) if sc.get("conn2") else 0),
                           "real_trigger": bool(sc.get("real_trigger")), "two_connections": bool(sc.get("conn2")),
                           "poll2": sc["poll"], "runs": res["runs"],
                           "per_preemption_level": res["per_preemption_level"], "truncated": res["truncated"]})
    book.flush()

    ctx.oblige("K-chan: every real trace is a run of Model/ChanWake.v with equal abstract state after every operation",
               book.all_conform and book.validated > 0, "validated=%d" % book.validated)
    ctx.oblige("K-verdict: the model's end state (quiescent, c05_ok) agrees with the monitor on the real end state",
               book.all_verdicts)
    ctx.oblige("K-inv: inv_ok holds on every model state visited by a real trace", book.inv_ok)
    ctx.oblige("monitor: every quiescent end state of the real server satisfies C05",
               book.all_monitor)

    if not props_ok and not ctx.violations:
        ctx.report("c05-proof-broken", "Props/C05.v no longer checks (%s)" % failing,
                   {"failing_input_found": False, "broken": "Props/C05.v via %s" % failing,
                    "log_tail": (log or "")[-1500:]})
    if changed and not [v for v in ctx.violations if not v.get("kf_class")]:
        ctx.report("c05-shape:" + changed[0], "the audited methods changed shape: " + ", ".join(changed),
                   {"failing_input_found": False, "broken": "shape audit", "changed": changed,
                    "now": {k: sig.get(k) for k in changed[:3]}})

    ctx.coverage.update({
        "evaluations": sum(v for k, v in book.stats.items() if k.startswith("end:")),
        "distinct_nontrivial": len(book.distinct),
        "rule": "one evaluation = one complete run of the real HTTPChannel+dispatcher+poll loop to quiescence under one schedule, "
                "monitored and aligned with the model; distinct = distinct sequences of labelled operations (hash of the aligned event stream)",
        "traces_validated_against_impl": book.validated,
        "model_steps_fired": book.steps_fired,
        "abstract_states_compared": book.states_compared,
        "scenario_kinds": dict(book.kinds),
        "schedule_policies": dict(book.policies),
        "end_states": {k: v for k, v in book.stats.items()},
        "exhaustive_tiny": exhaustive,
        "model_explorer": explored,
        "shape_methods": len(cw.EXPECTED_SHAPE),
        "seconds_build_and_explore": round(t_build, 1), "seconds_runs": round(time.time() - t0 - t_build, 1),
        "samples": book.samples,
        "distribution": "58%% main generator (1-3 requests, 1-3 chunks of 1..600 bytes, send_bytes in {1,50,150} <= watermark in {1,60,120,250,16MiB}, "
                        "lookahead 0..2, 1-3 workers, partial-send plans with EWOULDBLOCK/EPIPE/EHOSTUNREACH, 8%% recv faults, 30%% client close, "
                        "locks/attrs granularity, poll/poll2 and FakeTrigger / REAL trigger.trigger over a fake pipe each 50/50); 12%% streaming application that waits for its consumer after every chunk (a worker parked in the application is a quiescent state too); 8%% watermark 0; 7%% send_bytes > watermark (both repaired finding classes, now expected to pass); 15%% pipelined Expect: 100-continue; "
                        "schedules 45%% uniform random (stay 0..0.9), 55%% PCT depth 1-3; plus %d two-connection runs (2-3 workers, one loop, cross-request dependency in half of them; monitor only); "
                        "plus bounded exhaustive (pre-emption bound %d) on 11 tiny scenarios (two with the real trigger -- one of them always with 2 pre-emptions --, one with two connections)" % (n_two, 2 if thorough else 1),
    })


def replay(data):
    sc = data["scenario"]
    w, cls, probs = cw.run_one(sc, schedule=data.get("choices", []), max_steps=data.get("max_steps", 4000))
    print("end=%s problems=%s final=%s" % (cls, probs, {k: v for k, v in w.final.items() if k != "blocked"}))
    bad = bool(probs)
    if "real trace is not a run" in data.get("what", "") or "model" in str(data.get("expected", "")):
        runner = vcommon.Runner(os.path.join(vcommon.VERIF, "ocaml", "chanwake", "runner"))
        try:
            ans = runner.query([cw.conform_lines(w, sc)])[0]
            print(ans[:400])
            bad = bad or not ans.startswith("OK")
        except Exception as e:  # pragma: no cover
            print("runner unavailable: %r" % (e,))
    return 1 if bad else 0
