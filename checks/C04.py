"""C04 -- pipelined requests: in order, exactly once, never mixed, under every schedule.

Decided by: inductive invariants of the narrow interleaving model Model/ChanPipe.v (I/O thread,
n workers, environment; all schedules, all lookahead values, all partial-send patterns, all
pipelines; Props/C04.v), tied to the code by
  (a) K-chanpipe: real traces of the real HTTPChannel + ThreadedTaskDispatcher + wasyncore.poll
      under the deterministic scheduler (harness/chan_world.py) at attribute-access granularity,
      mapped operation by operation to the model's choices (harness/chanpipe.py) and replayed on
      the extracted model, comparing after EVERY step the label and the abstract state (length of
      requests, total_outbufs_len, the length of every output buffer, connected / will_close /
      close_when_flushed, the dispatcher queue, the owners of requests_lock, outbuf_lock and the
      dispatcher lock, the number of bytes on the wire);
  (b) an `ast` shape audit of the 13 channel methods and the 2 dispatcher methods the model
      transliterates;
and searched by (c) the property's monitor on the real runs (byte stream against the
concatenation of the lone responses, application-call order, writes never mixed, one queue
entry, exactly once at quiescence) under seeded random, PCT and bounded-exhaustive schedules,
and by the theorem predicates evaluated (extracted) on the model states the real traces map to.

Finding F18 (reproduced here on the unchanged tree, replayed by the model): after popping the
last request the finishing WORKER may call send_continue() -- a locked append + flush -- while
the I/O thread, having read `requests == []`, is inside the UNLOCKED _flush_some on the same
buffers: the same chunk is sent twice.  C04_wire is refuted in the model (C04_wire_refuted) and
proved for every execution without a worker-side send_continue (C04_wire_partial)."""
import hashlib
import json
import os
import random
import time

from lib import vcommon

LEVEL = "proof"
ASSUMPTIONS = [
    "sequential consistency at the granularity of attribute loads/stores of the channel (GIL); code between two labelled operations of the scheduler harness touches only thread-local data or data protected by a lock it holds (re-checked by the shape audit for the modelled attributes)",
    "the socket does not fail (send accepts 0..len bytes, recv delivers data or EOF): errno paths are C13's; outbuf_high_watermark is larger than the pending output (back-pressure is C12's); maintenance()/cancel() are not modelled",
    "what the parser and the task compute is abstracted: a request is an id with (expect-continue, has-body, write sizes, close_on_finish); the sizes of the write_soon calls are read off the trace",
    "select/trigger over-approximated (select may return with nothing ready); outbuf.get returns a non-empty prefix of the first buffer of environment-chosen length",
]

KF_CLASS = "kf_c04_worker_send_continue"


def _H():
    from harness import chanpipe
    return chanpipe


def f18_scenario():
    H = _H()
    ra = H.Req("/a", chunks=[b"/a" * 20])
    rb = H.Req("/b", expect=True, body=b"hello")
    return H.Scenario([ra, rb], cuts=[len(ra.bytes()) + len(rb.head())], send_plan=[8, 0, 0])


def directed_scenarios():
    H = _H()
    R = H.Req
    out = []
    out.append(("two-get", H.Scenario([R("/a"), R("/b")])))
    out.append(("three-get-2w", H.Scenario([R("/a"), R("/b"), R("/c")], n_workers=2, lookahead=2)))
    a, b, c = R("/a", chunks=[b"/a" * 9, b"/a" * 3]), R("/b"), R("/c", expect=True, body=b"12345")
    pos = len(a.bytes()) + len(b.bytes()) + len(c.head())
    out.append(("two-queued-then-expect", H.Scenario([a, b, c], cuts=[pos], n_workers=2, lookahead=2)))
    out.append(("two-queued-then-expect-1w", H.Scenario([a, b, c], cuts=[pos], n_workers=1, lookahead=0, send_plan=[10, 0])))
    out.append(("close-in-the-middle", H.Scenario([R("/a"), R("/b", close=True), R("/c")], lookahead=1, n_workers=2)))
    out.append(("expect-first", H.Scenario([R("/a", expect=True, body=b"xyz"), R("/b")], cuts=[len(R("/a", expect=True, body=b"xyz").head())])))
    out.append(("expect-nobody", H.Scenario([R("/a"), R("/b", expect=True, body=b"")], lookahead=1, n_workers=2)))
    out.append(("slow-client", H.Scenario([R("/a", chunks=[b"A" * 50, b"B" * 50]), R("/b", chunks=[b"C" * 30])],
                                          send_plan=[7, 0, 3, 0, 11], send_bytes=1, n_workers=2, lookahead=1)))
    out.append(("big-send-bytes", H.Scenario([R("/a"), R("/b"), R("/c")], send_bytes=18000, n_workers=2, lookahead=2)))
    out.append(("eof-after", H.Scenario([R("/a"), R("/b")], eof=True)))
    out.append(("f18", f18_scenario()))
    return out


def tiny_scenarios():
    H = _H()
    R = H.Req
    return [
        ("tiny-two-get-2w", H.Scenario([R("/a", chunks=[b"a"]), R("/b", chunks=[b"b"])], n_workers=2, lookahead=1, cuts=[28])),
        ("tiny-f18", f18_scenario()),
    ]


def run_world(scn, schedule=(), policy=None):
    H = _H()
    w = H.PipeWorld(scn, schedule=schedule, policy=policy)
    w.run()
    return w


def run(ctx):
    H = _H()
    ctx.gate()
    props_ok, failing, log = ctx.props()
    ctx.build(["Model/ChanPipe.vo"])
    runner = ctx.runner("chanpipe", "ExtChanpipe.v")
    if runner is None:
        ctx.oblige("extracted model runner builds", False, "see notes")
        return
    rng = ctx.rng
    thorough = ctx.tier == "thorough"
    t0 = time.time()
    budget = 540.0 if thorough else 75.0

    # ---- (b) shape audit ---------------------------------------------------------------
    src = os.path.join(vcommon.SRC, "waitress")
    sig = H.shape_signature(os.path.join(src, "channel.py"))
    dsig = H.dispatcher_signature(os.path.join(src, "task.py"))
    bad_shapes = []
    for name, exp in list(H.EXPECTED_SHAPE.items()) + list(H.EXPECTED_DISPATCHER_SHAPE.items()):
        got = sig.get(name, dsig.get(name))
        if got != exp:
            bad_shapes.append({"method": name, "expected": exp, "found": got})
    shape_ok = ctx.oblige(
        "K-shape: lock scopes, shared-attribute reads/writes, flag tests and add_task/pull_trigger/notify/"
        "send_continue/_flush_some calls of the %d modelled methods are what Model/ChanPipe.v transliterates"
        % (len(H.EXPECTED_SHAPE) + len(H.EXPECTED_DISPATCHER_SHAPE)), not bad_shapes,
        "; ".join("%s: expected [%s] found [%s]" % (b["method"], b["expected"], b["found"]) for b in bad_shapes)[:1800])

    # ---- (a)+(c) real runs ---------------------------------------------------------------
    stats = {"runs": 0, "validated_traces": 0, "validated_steps": 0, "overrun": 0, "blocked": 0, "finished": 0,
             "f18_class_runs": 0, "f18_violations": 0, "monitor_violations": 0, "conformance_mismatches": 0,
             "model_flag_failures": 0}
    policies = {}
    pcs = set()
    states = set()
    nontrivial = set()
    samples = []
    scns_seen = []
    conf_ok = [True]
    mon_ok = [True]
    flags_ok = [True]
    f18_found = [None]
    reported = {}

    def report(key, what, rep, kf_class=None, cap=2):
        reported[key] = reported.get(key, 0) + 1
        if reported[key] <= cap:
            ctx.report(key if reported[key] == 1 else "%s#%d" % (key, reported[key]), what, rep, kf_class=kf_class)

    def replay_dict(kind, name, scn, w, extra):
        d = {"kind": kind, "scenario_name": name, "scenario": scn.to_json(), "choices": list(w.sched.choices),
             "granularity": "attrs", "failing_input_found": True}
        d.update(extra)
        return d

    def one(name, scn, schedule=(), policy=None, pk="default"):
        w = run_world(scn, schedule=schedule, policy=policy)
        stats["runs"] += 1
        stats[w.verdict] = stats.get(w.verdict, 0) + 1
        policies[pk] = policies.get(pk, 0) + 1
        isf18 = H.f18_class(w)
        stats["f18_class_runs"] += isf18
        # the property's monitor on the real run
        bad = H.monitor(w)
        for key, text in bad:
            if isf18 and key in ("wire", "lost", "lost-output"):
                stats["f18_violations"] += 1
                if f18_found[0] is None:
                    f18_found[0] = (name, scn, list(w.sched.choices), text)
                report("kf-f18", text, replay_dict("monitor", name, scn, w, {
                    "expected": "wire = concatenation of the lone responses of a prefix of the pipeline (interim responses only before their own response)",
                    "observed": text, "wire_hex": w.wire.hex()[:600], "class": "a worker thread entered send_continue()"}),
                    kf_class=KF_CLASS)
            else:
                mon_ok[0] = False
                stats["monitor_violations"] += 1
                report("monitor:" + key, text, replay_dict("monitor", name, scn, w, {
                    "expected": "C04 monitor clean", "observed": text, "wire_hex": w.wire.hex()[:600]}))
        # conformance with the model
        try:
            n, mis, flags = H.validate(w, runner)
        except Exception as e:  # a trace the mapping cannot express is a broken tie as well
            n, mis, flags = 0, {"why": "mapping failed: %r" % (e,)}, {}
        stats["validated_steps"] += n
        if mis is None:
            stats["validated_traces"] += 1
            pcs.update(flags.get("pcs", ()))
            states.update(flags.get("states", ()))
            # the theorem predicates on the model states the real trace maps to
            if isf18:
                okflags = flags.get("rest_ok", True)
            else:
                okflags = flags.get("allok", True)
            if not okflags:
                flags_ok[0] = False
                stats["model_flag_failures"] += 1
                report("model-predicate", "a C04 predicate is false in a model state reached along a real trace",
                           replay_dict("model-predicate", name, scn, w, {"expected": "wire/once/one/entry/quiescent all true",
                                                                          "observed": flags.get("last")}))
        else:
            conf_ok[0] = False
            stats["conformance_mismatches"] += 1
            report("conformance:" + str(mis.get("why")), "real trace not reproduced by Model/ChanPipe.v: %s" % mis.get("why"),
                       replay_dict("conformance", name, scn, w, {
                           "expected": "every observed operation is a step of the model with the same label, leading to the same abstract state",
                           "observed": mis}))
        if len(w.sched.events) > 60 and (len(scn.reqs) > 1):
            nontrivial.add(hashlib.sha1((json.dumps(scn.to_json(), sort_keys=True) + "|" + ",".join(map(str, w.sched.choices))).encode()).hexdigest())
        return w, bad, mis

    # 1. directed scenarios: default schedule, random, PCT
    for name, scn in directed_scenarios():
        scns_seen.append(scn)
        w, bad, mis = one(name, scn)
        if len(samples) < 6:
            samples.append({"scenario": name, "policy": "default", "verdict": w.verdict, "wire_bytes": len(w.wire),
                            "steps": len(w.sched.choices), "app_calls": [e[2] for e in w.sched.events if e[1] == "app_call"]})
        k = 40 if thorough else 8
        for i in range(k):
            r = random.Random(rng.getrandbits(48))
            if i % 2:
                one(name, scn, policy=H.PCTPolicy(r, 1 + i % 3, 260), pk="pct%d" % (1 + i % 3))
            else:
                one(name, scn, policy=H.RandomPolicy(r, stay=r.choice([0.0, 0.5, 0.9, 0.97])), pk="random")

    # 2. the directed reproduction of F18: the stored schedule first, then a search
    f18s = f18_scenario()
    w, bad, mis = one("f18-stored", f18s, schedule=H.F18_CHOICES, pk="stored")
    reproduced = any(k == "wire" for k, _ in bad) and H.f18_class(w)
    tries = 0
    while not reproduced and tries < (4000 if thorough else 600) and time.time() - t0 < budget * 0.5:
        r = random.Random(rng.getrandbits(48))
        pol = H.RandomPolicy(r, stay=0.9) if tries % 2 == 0 else H.PCTPolicy(r, 2, 260)
        w, bad, mis = one("f18-search", f18s, policy=pol, pk="f18-search")
        reproduced = any(k == "wire" for k, _ in bad) and H.f18_class(w)
        tries += 1
    stats["f18_search_tries"] = tries

    # 3. bounded exhaustive exploration of tiny scenarios (iterative pre-emption bounding)
    ex_stats = {}
    for name, scn in tiny_scenarios():
        scns_seen.append(scn)

        def run_case(prefix, scn=scn, name=name):
            w, bad, mis = one(name, scn, schedule=prefix, pk="explore")
            return w.sched
        lim = 1500 if thorough else 220
        r = H.explore(run_case, 2 if thorough else 1, limit=lim)
        ex_stats[name] = r
        if time.time() - t0 > budget * 0.7:
            break

    # 4. random scenarios under random / PCT schedules until the budget is used
    n_random = 0
    while time.time() - t0 < budget and n_random < (6000 if thorough else 900):
        r = random.Random(rng.getrandbits(48))
        scn = H.gen_scenario(r)
        scns_seen.append(scn)
        if n_random % 3 == 0:
            pol, pk = H.PCTPolicy(r, r.randint(1, 3), 300), "pct"
        else:
            pol, pk = H.RandomPolicy(r, stay=r.choice([0.0, 0.5, 0.9, 0.97])), "random"
        one("random-%d" % n_random, scn, policy=pol, pk=pk)
        n_random += 1

    ctx.oblige("K-chanpipe: every operation of every real trace is a step of Model/ChanPipe.v with the same label "
               "and the same abstract state (%d traces, %d steps)" % (stats["validated_traces"], stats["validated_steps"]),
               conf_ok[0] and stats["validated_traces"] > 0)
    ctx.oblige("C04 monitor on the real runs: violations only in the class of F18 (a worker-side send_continue)", mon_ok[0])
    ctx.oblige("the theorem predicates (extracted) hold in every model state reached along the real traces "
               "(wire predicate exempt in the class of F18)", flags_ok[0])
    ctx.oblige("F18 reproduced on the real code (duplicate bytes on the wire in the class of the known finding)", reproduced,
               "no schedule found in %d tries" % tries)

    ctx.coverage.update({
        "rule": "real HTTPChannel/dispatcher/poll traces under the deterministic scheduler mapped step by step to the extracted "
                "model (label + abstract state after every step); C04 monitor on every run; ast shape audit of 15 methods",
        "evaluations": stats["runs"],
        "traces_validated_against_impl": stats["validated_traces"],
        "steps_validated": stats["validated_steps"],
        "distinct_nontrivial": len(nontrivial),
        "distinct_model_states_visited": len(states),
        "model_program_points_visited": len(pcs),
        "model_program_points_list": sorted(pcs)[:200],
        "stats": stats,
        "policies": policies,
        "exploration": ex_stats,
        "scenario_distribution": H.scenario_dist(scns_seen),
        "samples": samples,
        "shape_audit_methods": sorted(list(H.EXPECTED_SHAPE) + list(H.EXPECTED_DISPATCHER_SHAPE)),
        "f18": {"reproduced": reproduced, "first": None if f18_found[0] is None else
                {"scenario": f18_found[0][0], "what": f18_found[0][3][:200], "schedule_len": len(f18_found[0][2])}},
    })


def replay(data):
    H = _H()
    scn = H.Scenario.from_json(data["scenario"])
    w = H.PipeWorld(scn, schedule=data["choices"])
    w.run()
    bad = H.monitor(w)
    runner_path = os.path.join(vcommon.VERIF, "ocaml", "chanpipe", "runner")
    mis = None
    if os.path.exists(runner_path):
        try:
            n, mis, flags = H.validate(w, vcommon.Runner(runner_path))
        except Exception as e:
            mis = {"why": repr(e)}
    print("kind=%s scenario=%s verdict=%s wire=%d bytes" % (data.get("kind"), data.get("scenario_name"), w.verdict, len(w.wire)))
    print("monitor now: %r" % (bad,))
    print("conformance now: %r" % (mis,))
    print("expected: %s" % data.get("expected"))
    print("observed then: %s" % (data.get("observed"),))
    if data.get("kind") == "monitor":
        return 1 if bad else 0
    if data.get("kind") == "conformance":
        return 1 if mis else 0
    return 1 if (bad or mis) else 0
