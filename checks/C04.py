"""C04 -- pipelined requests: in order, exactly once, never mixed, under every schedule.

Decided by: inductive invariants of the narrow interleaving model Model/ChanPipe.v (I/O thread,
n workers, environment; all schedules, all lookahead values, all partial-send patterns, all
pipelines; Props/C04.v), tied to the code by
  (a) K-chanpipe: real traces of the real HTTPChannel + ThreadedTaskDispatcher + wasyncore.poll
      under the deterministic scheduler (harness/chan_world.py) at attribute-access granularity,
      mapped operation by operation to the model's choices (harness/chanpipe.py) and replayed on
      the extracted model, comparing after EVERY step the label and the abstract state (length of
      requests, total_outbufs_len, the length of every output buffer, connected / will_close /
      close_when_flushed, the dispatcher queue, the owners of requests_lock, outbuf_lock and the
      dispatcher lock, the number of bytes on the wire);
  (b) an `ast` shape audit of the 13 channel methods and the 2 dispatcher methods the model
      transliterates;
and searched by (c) the property's monitor on the real runs (byte stream against the
concatenation of the lone responses, application-call order, writes never mixed, one queue
entry, exactly once at quiescence) under seeded random, PCT and bounded-exhaustive schedules,
and by the theorem predicates evaluated (extracted) on the model states the real traces map to;
  (d) the same monitor on scenarios in which OUTPUT BUFFERS CHANGE REPRESENTATION UNDER PARTIAL SENDS
      (harness.chanpipe.BufScenario: STRBUF_LIMIT / outbuf_overflow / outbuf_high_watermark shrunk so that
      bytes -> BytesIO -> temporary-file migrations and buffer rotation happen while the read position of the
      buffer is non-zero).  The model abstracts a buffer as a length and has no high-watermark wait, so (d)
      is judged by the monitor only (exact bytes against the lone-run oracle, no empty send, no stall);
  (e) the same monitor, plus the record of what the application was called with (method, path, body), on
      pipelines that MIX body-less, Content-Length and chunked requests (chunk extensions, trailers) delivered
      under generated SEGMENTATIONS (whole, byte-wise, every single cut, cuts inside every CRLF, random cut
      sets; harness.chanpipe.SegScenario) across lookahead 0/1/5: a request whose parsing depends on how the
      bytes arrive reaches the application differently from how the client sent it.  The model abstracts
      parsing (a request is an id), so (e) is monitor-only as well;
  (f) the CLIENT-SIDE READING of the wire (status line, Content-Length / chunked / EOF framing) against the lone
      runs on pipelines whose applications FAIL (OSError subclasses and other exceptions before start_response,
      after it, after the head, in mid-body, after the last chunk; iterator and write()) crossed with
      log_socket_errors, expose_tracebacks, the response framing, lookahead 0/1/5, and on pipelines with a SLOW
      request in service past channel_timeout while the REAL BaseWSGIServer.maintenance runs on every poll turn
      under the fake clock (harness.chanpipe.FaultScenario).  Monitor only.

Finding F18 (found here, reproduced on the then real tree, replayed by the model; repaired in /repo
by 8bcf05e): after popping the last request the finishing WORKER may call send_continue() -- a locked
append + flush -- while the I/O thread, having read `requests == []`, was inside the UNLOCKED
_flush_some on the same buffers: the same chunk was sent twice.  Since the repair handle_write
flushes under try-lock in that branch too; the model follows (p_unlocked = false), C04_wire is proved
at full strength, and the old shape is kept only as C04_wire_refuted_old.  The stored schedule
(harness.chanpipe.F18_CHOICES) is re-run on every check: on a tree with the old shape it shows the
duplicate send again (VIOLATION with replay)."""
import hashlib
import json
import os
import random
import time

from lib import vcommon

LEVEL = "proof"
ASSUMPTIONS = [
    "sequential consistency at the granularity of attribute loads/stores of the channel (GIL); code between two labelled operations of the scheduler harness touches only thread-local data or data protected by a lock it holds (re-checked by the shape audit for the modelled attributes)",
    "the socket does not fail (send accepts 0..len bytes, recv delivers data or EOF): errno paths are C13's; outbuf_high_watermark is larger than the pending output (back-pressure is C12's); maintenance()/cancel() are not modelled",
    "what the parser and the task compute is abstracted: a request is an id with (expect-continue, has-body, write sizes, close_on_finish); the sizes of the write_soon calls are read off the trace",
    "select/trigger over-approximated (select may return with nothing ready); outbuf.get returns a non-empty prefix of the first buffer of environment-chosen length",
    "output discarded by handle_close (client EOF / close_when_flushed) is accounted as one contiguous cut segment of the produced stream, not as a violation",
]



def _H():
    from harness import chanpipe
    return chanpipe


def f18_scenario():
    H = _H()
    ra = H.Req("/a", chunks=[b"/a" * 20])
    rb = H.Req("/b", expect=True, body=b"hello")
    return H.Scenario([ra, rb], cuts=[len(ra.bytes()) + len(rb.head())], send_plan=[8, 0, 0])


def directed_scenarios():
    H = _H()
    R = H.Req
    out = []
    out.append(("two-get", H.Scenario([R("/a"), R("/b")])))
    out.append(("three-get-2w", H.Scenario([R("/a"), R("/b"), R("/c")], n_workers=2, lookahead=2)))
    a, b, c = R("/a", chunks=[b"/a" * 9, b"/a" * 3]), R("/b"), R("/c", expect=True, body=b"12345")
    pos = len(a.bytes()) + len(b.bytes()) + len(c.head())
    out.append(("two-queued-then-expect", H.Scenario([a, b, c], cuts=[pos], n_workers=2, lookahead=2)))
    out.append(("two-queued-then-expect-1w", H.Scenario([a, b, c], cuts=[pos], n_workers=1, lookahead=0, send_plan=[10, 0])))
    out.append(("close-in-the-middle", H.Scenario([R("/a"), R("/b", close=True), R("/c")], lookahead=1, n_workers=2)))
    out.append(("expect-first", H.Scenario([R("/a", expect=True, body=b"xyz"), R("/b")], cuts=[len(R("/a", expect=True, body=b"xyz").head())])))
    out.append(("expect-nobody", H.Scenario([R("/a"), R("/b", expect=True, body=b"")], lookahead=1, n_workers=2)))
    out.append(("slow-client", H.Scenario([R("/a", chunks=[b"A" * 50, b"B" * 50]), R("/b", chunks=[b"C" * 30])],
                                          send_plan=[7, 0, 3, 0, 11], send_bytes=1, n_workers=2, lookahead=1)))
    out.append(("big-send-bytes", H.Scenario([R("/a"), R("/b"), R("/c")], send_bytes=18000, n_workers=2, lookahead=2)))
    out.append(("eof-after", H.Scenario([R("/a"), R("/b")], eof=True)))
    out.append(("f18", f18_scenario()))
    return out


def tiny_scenarios():
    H = _H()
    R = H.Req
    return [
        ("tiny-two-get-2w", H.Scenario([R("/a", chunks=[b"a"]), R("/b", chunks=[b"b"])], n_workers=2, lookahead=1, cuts=[28])),
        ("tiny-f18", f18_scenario()),
    ]


def run_world(scn, schedule=(), policy=None):
    H = _H()
    w = H.PipeWorld(scn, schedule=schedule, policy=policy)
    w.run()
    return w


def run(ctx):
    H = _H()
    ctx.translate({"GenPreds"})      # C04_deferred_close_loses_nothing is stated over the regenerated handle_write predicates
    ctx.gate()
    props_ok, failing, log = ctx.props()
    okx, _, _ = ctx.build(["Model/ChanPipe.vo", "Proof/ChanPipeExamples.vo"])
    ctx.oblige("non-vacuity examples (Proof/ChanPipeExamples.v: a real two-request run replayed in the model, the F18 "
               "schedule on the repaired shape) compile", okx)
    runner = ctx.runner("chanpipe", "ExtChanpipe.v")
    if runner is None:
        ctx.oblige("extracted model runner builds", False, "see notes")
        return
    rng = ctx.rng
    thorough = ctx.tier == "thorough"
    t0 = time.time()
    budget = 430.0 if thorough else 39.0

    # ---- (b) shape audit ---------------------------------------------------------------
    src = os.path.join(vcommon.SRC, "waitress")
    sig = H.shape_signature(os.path.join(src, "channel.py"))
    dsig = H.dispatcher_signature(os.path.join(src, "task.py"))
    bad_shapes = []
    for name, exp in list(H.EXPECTED_SHAPE.items()) + list(H.EXPECTED_DISPATCHER_SHAPE.items()):
        got = sig.get(name, dsig.get(name))
        if got != exp:
            bad_shapes.append({"method": name, "expected": exp, "found": got})
    shape_ok = ctx.oblige(
        "K-shape: lock scopes, shared-attribute reads/writes, flag tests and add_task/pull_trigger/notify/"
        "send_continue/_flush_some calls of the %d modelled methods are what Model/ChanPipe.v transliterates"
        % (len(H.EXPECTED_SHAPE) + len(H.EXPECTED_DISPATCHER_SHAPE)), not bad_shapes,
        "; ".join("%s: expected [%s] found [%s]" % (b["method"], b["expected"], b["found"]) for b in bad_shapes)[:1800])

    # ---- (a)+(c) real runs ---------------------------------------------------------------
    stats = {"runs": 0, "validated_traces": 0, "validated_steps": 0, "overrun": 0, "blocked": 0, "finished": 0,
             "f18_class_runs": 0, "f18_violations": 0, "monitor_violations": 0, "conformance_mismatches": 0,
             "model_flag_failures": 0}
    policies = {}
    pcs = set()
    states = set()
    nontrivial = set()
    samples = []
    scns_seen = []
    conf_ok = [True]
    mon_ok = [True]
    flags_ok = [True]
    reported = {}

    def report(key, what, rep, kf_class=None, cap=2):
        reported[key] = reported.get(key, 0) + 1
        if reported[key] <= cap:
            ctx.report(key if reported[key] == 1 else "%s#%d" % (key, reported[key]), what, rep, kf_class=kf_class)

    def replay_dict(kind, name, scn, w, extra):
        d = {"kind": kind, "scenario_name": name, "scenario": scn.to_json(), "choices": list(w.sched.choices),
             "granularity": "attrs", "failing_input_found": True}
        d.update(extra)
        return d

    def one(name, scn, schedule=(), policy=None, pk="default"):
        w = run_world(scn, schedule=schedule, policy=policy)
        stats["runs"] += 1
        stats[w.verdict] = stats.get(w.verdict, 0) + 1
        policies[pk] = policies.get(pk, 0) + 1
        isf18 = H.f18_class(w)
        stats["f18_class_runs"] += isf18
        # the property's monitor on the real run
        bad = H.monitor(w)
        for key, text in bad:
            mon_ok[0] = False
            stats["monitor_violations"] += 1
            if isf18:
                stats["f18_violations"] += 1
            report("monitor:" + key, text, replay_dict("monitor", name, scn, w, {
                "expected": "C04 monitor clean: wire = concatenation of the lone responses of a prefix of the pipeline "
                            "(interim responses only directly before their own response), calls in arrival order, one queue entry",
                "observed": text, "wire_hex": w.wire.hex()[:600],
                "unlocked_io_flush_overlaps_worker_send_continue": bool(isf18)}))
        # conformance with the model
        try:
            n, mis, flags = H.validate(w, runner)
        except Exception as e:  # a trace the mapping cannot express is a broken tie as well
            n, mis, flags = 0, {"why": "mapping failed: %r" % (e,)}, {}
        stats["validated_steps"] += n
        if mis is None:
            stats["validated_traces"] += 1
            pcs.update(flags.get("pcs", ()))
            states.update(flags.get("states", ()))
            # the theorem predicates on the model states the real trace maps to
            okflags = flags.get("allok", True)
            if not okflags:
                flags_ok[0] = False
                stats["model_flag_failures"] += 1
                report("model-predicate", "a C04 predicate is false in a model state reached along a real trace",
                           replay_dict("model-predicate", name, scn, w, {"expected": "wire/once/one/entry/quiescent all true",
                                                                          "observed": flags.get("last")}))
        else:
            conf_ok[0] = False
            stats["conformance_mismatches"] += 1
            report("conformance:" + str(mis.get("why")), "real trace not reproduced by Model/ChanPipe.v: %s" % mis.get("why"),
                       replay_dict("conformance", name, scn, w, {
                           "expected": "every observed operation is a step of the model with the same label, leading to the same abstract state",
                           "observed": mis}))
        if len(w.sched.events) > 60 and (len(scn.reqs) > 1):
            nontrivial.add(hashlib.sha1((json.dumps(scn.to_json(), sort_keys=True) + "|" + ",".join(map(str, w.sched.choices))).encode()).hexdigest())
        return w, bad, mis

    # 1. directed scenarios: default schedule, random, PCT
    for name, scn in directed_scenarios():
        scns_seen.append(scn)
        w, bad, mis = one(name, scn)
        if len(samples) < 6:
            samples.append({"scenario": name, "policy": "default", "verdict": w.verdict, "wire_bytes": len(w.wire),
                            "steps": len(w.sched.choices), "app_calls": [e[2] for e in w.sched.events if e[1] == "app_call"]})
        k = 40 if thorough else 8
        for i in range(k):
            r = random.Random(rng.getrandbits(48))
            if i % 2:
                one(name, scn, policy=H.PCTPolicy(r, 1 + i % 3, 260), pk="pct%d" % (1 + i % 3))
            else:
                one(name, scn, policy=H.RandomPolicy(r, stay=r.choice([0.0, 0.5, 0.9, 0.97])), pk="random")

    # 2. regression for F18 (repaired by 8bcf05e): the stored schedule, and PCT/random schedules of the scenario,
    #    must be clean on this tree; the extracted model must show the duplicate send for the OLD shape of
    #    handle_write (p_unlocked = 1) and none for the current one under the witness schedule of
    #    Proof/ChanPipeRefute.v
    f18s = f18_scenario()
    scns_seen.append(f18s)
    w, bad, mis = one("f18-stored", f18s, schedule=H.F18_CHOICES, pk="stored")
    f18_clean = not bad and mis is None
    for i in range(60 if thorough else 12):
        r = random.Random(rng.getrandbits(48))
        pol = H.RandomPolicy(r, stay=0.9) if i % 2 == 0 else H.PCTPolicy(r, 2, 260)
        w, bad, mis = one("f18-search", f18s, policy=pol, pk="f18-search")
        f18_clean = f18_clean and not bad and mis is None
    wit = (["i:-"] * 7 + ["i:s10", "i:-", "i:r2.0"] + ["i:-"] * 17 + ["w0:-"] * 15 + ["w0:n5.0"] + ["w0:-"] * 13
           + ["i:-", "i:s01", "i:-", "i:-", "i:-", "i:-", "i:n7.7"] + ["w0:-", "w0:n7.7"])
    ans = runner.query(["raw 0,1,2,1,1 000:5/100:3 " + " ".join(wit), "raw 0,1,2,1,0 000:5/100:3 " + " ".join(wit)])
    old_last = [f for f in ans[0].split("|") if f != "X"][-1]
    new_fields = [f for f in ans[1].split("|") if f != "X"]
    model_old_refuted = old_last.endswith("ok=01111") and "wire=14" in old_last
    model_new_ok = all(f.endswith("ok=11111") for f in new_fields) and "wire=7" in new_fields[-1]
    # 3. bounded exhaustive exploration of tiny scenarios (iterative pre-emption bounding)
    ex_stats = {}
    for name, scn in tiny_scenarios():
        scns_seen.append(scn)

        def run_case(prefix, scn=scn, name=name):
            w, bad, mis = one(name, scn, schedule=prefix, pk="explore")
            return w.sched
        lim = 1500 if thorough else 220
        r = H.explore(run_case, 2 if thorough else 1, limit=lim)
        ex_stats[name] = r
        if time.time() - t0 > budget * 0.7:
            break

    # 4. random scenarios under random / PCT schedules until the budget is used
    n_random = 0
    while time.time() - t0 < budget and n_random < (6000 if thorough else 900):
        r = random.Random(rng.getrandbits(48))
        scn = H.gen_scenario(r)
        scns_seen.append(scn)
        if n_random % 3 == 0:
            pol, pk = H.PCTPolicy(r, r.randint(1, 3), 300), "pct"
        else:
            pol, pk = H.RandomPolicy(r, stay=r.choice([0.0, 0.5, 0.9, 0.97])), "random"
        one("random-%d" % n_random, scn, policy=pol, pk=pk)
        n_random += 1

    # 5. output buffers that change representation (bytes -> BytesIO -> tempfile, rotation) under partial sends:
    #    MONITOR ONLY (the model has buffer lengths, not representations, and no back-pressure wait)
    tb = time.time()
    buf_budget = 90.0 if thorough else 11.0
    bst = {"runs": 0, "overrun": 0, "violating_runs": 0, "migrations": {}, "migrations_with_nonzero_read_position": 0,
           "runs_with_nonzero_position_migration": 0, "buffer_rotations": 0, "policies": {}, "granularity": {}, "wire_bytes": 0,
           "complete_pipelines": 0}
    buf_traces = set()
    buf_best = {}
    buf_counts = {}
    buf_samples = []

    def buf_one(name, scn, schedule=(), policy=None, pk="default"):
        w = H.BufWorld(scn, schedule=schedule, policy=policy)
        w.run()
        bst["runs"] += 1
        bst["overrun"] += w.verdict == "overrun"
        bst["justified_stalls"] = bst.get("justified_stalls", 0) + (w.stall is not None)
        bst["inconclusive_step_budget"] = bst.get("inconclusive_step_budget", 0) + (w.verdict == "overrun" and w.stall is None)
        bst["policies"][pk] = bst["policies"].get(pk, 0) + 1
        bst["granularity"][scn.granularity] = bst["granularity"].get(scn.granularity, 0) + 1
        nz = 0
        for kind, pos, rem in w.migrations:
            bst["migrations"][kind] = bst["migrations"].get(kind, 0) + 1
            nz += 1 if pos else 0
        bst["migrations_with_nonzero_read_position"] += nz
        bst["runs_with_nonzero_position_migration"] += 1 if nz else 0
        bst["buffer_rotations"] += max(0, w.rotations - 1)
        bst["wire_bytes"] += len(w.wire)
        buf_traces.add(hashlib.sha1((json.dumps(scn.to_json(), sort_keys=True) + "|" + ",".join(map(str, w.sched.choices))).encode()).hexdigest())
        bad = H.buf_monitor(w)
        if not bad and H.check_wire(scn, w.wire)[3] == "complete":
            bst["complete_pipelines"] += 1
        if bad:
            bst["violating_runs"] += 1
            mon_ok[0] = False
        for key, text in bad:
            buf_counts[key] = buf_counts.get(key, 0) + 1
            rep = replay_dict("monitor-buf", name, scn, w, {
                "granularity": scn.granularity,
                "expected": "C04 monitor clean: wire = concatenation of the lone responses (computed under the default buffer limits) of a "
                            "prefix of the pipeline, whatever representation the output buffers go through; no empty send; quiescent",
                "observed": text, "wire_hex": w.wire.hex()[:600], "buffer_migrations": [list(m) for m in w.migrations][:12],
                "policy": pk, "stall_justification": w.stall})
            if key not in buf_best or len(json.dumps(rep)) < len(json.dumps(buf_best[key])):
                buf_best[key] = rep
        return w

    for name, scn in H.buf_directed():
        if bst["violating_runs"] >= 12:
            break
        w = buf_one(name, scn)
        if len(buf_samples) < 3:
            buf_samples.append({"scenario": name, "policy": "default", "verdict": w.verdict, "wire_bytes": len(w.wire),
                                "steps": len(w.sched.choices), "send_plan": scn.send_plan, "limits": scn.to_json()["buf"],
                                "buffer_migrations (kind, read position of the old buffer, unread bytes)": [list(m) for m in w.migrations]})
        est = max(30, len(w.sched.choices))
        for i in range(20 if thorough else 6):
            r = random.Random(rng.getrandbits(48))
            g = scn
            if i % 3 == 2:
                g = H.BufScenario.from_json(dict(scn.to_json(), buf=dict(scn.to_json()["buf"], granularity="attrs")))
            if i % 2:
                buf_one(name, g, policy=H.PCTPolicy(r, 1 + (i // 2) % 3, est * (4 if g.granularity == "attrs" else 1)), pk="pct%d" % (1 + (i // 2) % 3))
            else:
                buf_one(name, g, policy=H.RandomPolicy(r, stay=r.choice([0.0, 0.5, 0.9, 0.97])), pk="random")
    n_buf_random = 0
    while time.time() - tb < buf_budget and n_buf_random < (6000 if thorough else 700) and bst["violating_runs"] < 12:
        r = random.Random(rng.getrandbits(48))
        scn = H.gen_buf_scenario(r)
        if n_buf_random % 3 == 0:
            buf_one("buf-random-%d" % n_buf_random, scn)
        elif n_buf_random % 3 == 1:
            buf_one("buf-random-%d" % n_buf_random, scn, policy=H.RandomPolicy(r, stay=r.choice([0.0, 0.5, 0.9, 0.97])), pk="random")
        else:
            buf_one("buf-random-%d" % n_buf_random, scn, policy=H.PCTPolicy(r, r.randint(1, 3), 150 if scn.granularity == "locks" else 600), pk="pct")
        n_buf_random += 1
    for key, rep in sorted(buf_best.items()):
        rep["runs_with_this_violation"] = buf_counts[key]
        stats["monitor_violations"] += buf_counts[key]
        report("monitor-buf:" + key, rep["observed"], rep)
    ctx.oblige("C04 monitor clean on every run in which an output buffer changes representation under partial sends (%d runs, %d "
               "migrations, %d of them with a non-zero read position; monitor only)"
               % (bst["runs"], sum(bst["migrations"].values()), bst["migrations_with_nonzero_read_position"]),
               not buf_best and bst["migrations_with_nonzero_read_position"] > 0)
    bst["distinct_traces"] = len(buf_traces)
    bst["random_scenarios"] = n_buf_random
    bst["violations_by_kind"] = buf_counts
    bst["wall_s"] = round(time.time() - tb, 1)
    bst["judged_by"] = ("monitor only (exact wire bytes against the lone-run oracle computed under the default limits, call order, never "
                        "mixed, one queue entry, exactly once at quiescence, no empty send, no stall); NOT replayed on Model/ChanPipe.v: "
                        "the model abstracts a buffer as a length and has no high-watermark wait")
    bst["samples"] = buf_samples

    # 6. mixed-framing pipelines under generated segmentations: MONITOR ONLY (the model abstracts parsing)
    from harness import gen_http, split_search
    ts = time.time()
    seg_budget = 80.0 if thorough else 9.0
    sst = {"runs": 0, "overrun": 0, "violating_runs": 0, "pipelines": 0, "framing": {"none": 0, "cl": 0, "chunked": 0,
           "chunked_with_extension": 0, "chunked_with_trailer": 0}, "segmentation_kinds": {}, "pieces_delivered": 0,
           "runs_with_a_cut_inside_a_CRLF": 0, "runs_with_a_cut_inside_the_final_CRLF_of_a_chunked_body_followed_by_a_request": 0,
           "lookahead": {}, "policies": {}, "complete_pipelines": 0, "application_calls": 0, "stream_bytes": 0}
    seg_traces = set()
    seg_best = {}
    seg_counts = {}
    seg_samples = []

    def seg_one(name, reqs, cuts, la, kind, policy=None, pk="default", nw=1):
        scn = H.SegScenario(reqs, cuts, lookahead=la, n_workers=nw, seg_kind=kind)
        w = H.SegWorld(scn, policy=policy)
        w.run()
        sst["runs"] += 1
        sst["overrun"] += w.verdict == "overrun"
        sst["justified_stalls"] = sst.get("justified_stalls", 0) + (w.stall is not None)
        sst["inconclusive_step_budget"] = sst.get("inconclusive_step_budget", 0) + (w.verdict == "overrun" and w.stall is None)
        sst["segmentation_kinds"][kind] = sst["segmentation_kinds"].get(kind, 0) + 1
        sst["lookahead"][la] = sst["lookahead"].get(la, 0) + 1
        sst["policies"][pk] = sst["policies"].get(pk, 0) + 1
        sst["pieces_delivered"] += len(scn.client_script())
        st_ = scn.stream()
        sst["stream_bytes"] += len(st_)
        sst["runs_with_a_cut_inside_a_CRLF"] += any(st_[c - 1:c + 1] == b"\r\n" for c in scn.cuts if 0 < c < len(st_))
        sst["runs_with_a_cut_inside_the_final_CRLF_of_a_chunked_body_followed_by_a_request"] += bool(scn.final_crlf_cuts())
        sst["application_calls"] += len(w.calls)
        seg_traces.add(hashlib.sha1((json.dumps(scn.to_json(), sort_keys=True) + "|" + ",".join(map(str, w.sched.choices))).encode()).hexdigest())
        bad = H.seg_monitor(w)
        if not bad and w.calls == [r.expected_call() for r in reqs]:
            sst["complete_pipelines"] += 1
        if bad:
            sst["violating_runs"] += 1
            mon_ok[0] = False
        for key, text in bad:
            seg_counts[key] = seg_counts.get(key, 0) + 1
            rep = replay_dict("monitor-seg", name, scn, w, {
                "granularity": "locks", "policy": pk,
                "segmentation": {"kind": kind, "cuts": list(scn.cuts), "pieces_hex": [x[1].hex() for x in scn.client_script() if x[0] == "send"][:40]},
                "expected": "C04 monitor clean: the application is called with exactly the (method, path, body) of a prefix of the pipeline, in "
                            "order, and the wire is the concatenation of the lone responses (each request alone, delivered whole), whatever the segmentation",
                "observed": text, "application_calls": [[c[0], c[1], c[2]] for c in w.calls], "wire_hex": w.wire.hex()[:600],
                "stall_justification": w.stall})
            if key not in seg_best or len(json.dumps(rep)) < len(json.dumps(seg_best[key])):
                seg_best[key] = rep
        return w

    def note_pipeline(reqs):
        sst["pipelines"] += 1
        for r in reqs:
            sst["framing"][r.framing] += 1
            if r.framing == "chunked":
                sst["framing"]["chunked_with_extension"] += bool(r.ext)
                sst["framing"]["chunked_with_trailer"] += bool(r.trailer)

    SEG_NAMES = ["whole", "byte-wise", "random-cuts", "random-cuts", "random-cuts", "inside-every-CRLF"]
    for pi, (name, reqs) in enumerate(H.seg_pipelines()):
        if sst["violating_runs"] >= 12:
            break
        note_pipeline(reqs)
        stream = b"".join(r.bytes() for r in reqs)
        segs = gen_http.segmentations(rng, stream)
        for i, pieces_ in enumerate(segs):
            kind = SEG_NAMES[i] if len(segs) == len(SEG_NAMES) else "seg%d" % i
            for la in (0, 1, 5):
                w = seg_one(name, reqs, H.cuts_of(pieces_), la, kind)
            if kind == "inside-every-CRLF":
                if len(seg_samples) < 2:
                    seg_samples.append({"pipeline": name, "requests": [[r.method, r.path, r.framing, len(r.body)] for r in reqs],
                                        "segmentation": kind, "pieces": [x.decode("latin-1") for x in pieces_][:12], "lookahead": 5,
                                        "application_calls": [c[:2] for c in w.calls], "wire_bytes": len(w.wire), "steps": len(w.sched.choices)})
                for j in range(6 if thorough else 2):
                    r = random.Random(rng.getrandbits(48))
                    pol, pk = (H.PCTPolicy(r, 1 + j % 3, 300), "pct") if j % 2 else (H.RandomPolicy(r, stay=r.choice([0.0, 0.5, 0.9])), "random")
                    seg_one(name, reqs, H.cuts_of(pieces_), (0, 1, 5)[j % 3], kind, policy=pol, pk=pk, nw=2)
        if thorough or pi < 2:
            # every single cut of a short pipeline
            for c in range(1, len(stream)):
                for la in ((0, 1, 5) if thorough else ((0, 1, 5)[c % 3],)):
                    seg_one(name, reqs, [c], la, "every-single-cut")
    n_seg_random = 0
    while time.time() - ts < seg_budget and n_seg_random < (4000 if thorough else 400) and sst["violating_runs"] < 12:
        r = random.Random(rng.getrandbits(48))
        reqs = H.gen_seg_pipeline(r)
        note_pipeline(reqs)
        stream = b"".join(x.bytes() for x in reqs)
        segs = [("split_search", pieces_) for pieces_ in split_search.segmentations_for(r, stream, ctx.tier)]
        segs = [segs[0], segs[1]] + r.sample(segs[2:], min(len(segs) - 2, 10 if thorough else 4)) if len(segs) > 2 else segs
        segs += [("gen_http", pieces_) for pieces_ in gen_http.segmentations(r, stream, k=2)[2:]]
        for k, (src_, pieces_) in enumerate(segs):
            la = r.choice([0, 1, 5])
            if k % 4 == 3:
                seg_one("seg-random-%d" % n_seg_random, reqs, H.cuts_of(pieces_), la, "generated:" + src_,
                        policy=H.RandomPolicy(r, stay=r.choice([0.0, 0.5, 0.9])), pk="random", nw=r.choice([1, 2]))
            else:
                seg_one("seg-random-%d" % n_seg_random, reqs, H.cuts_of(pieces_), la, "generated:" + src_)
        n_seg_random += 1
    for key, rep in sorted(seg_best.items()):
        rep["runs_with_this_violation"] = seg_counts[key]
        stats["monitor_violations"] += seg_counts[key]
        report("monitor-seg:" + key, rep["observed"], rep)
    ctx.oblige("C04 monitor clean (wire, calls with method/path/body, never mixed, exactly once) on mixed-framing pipelines under generated "
               "segmentations (%d runs over %d pipelines; %d runs cut the final CRLF of a chunked body that is followed by a request; monitor only)"
               % (sst["runs"], sst["pipelines"], sst["runs_with_a_cut_inside_the_final_CRLF_of_a_chunked_body_followed_by_a_request"]),
               not seg_best and sst["runs_with_a_cut_inside_the_final_CRLF_of_a_chunked_body_followed_by_a_request"] > 0)
    sst["distinct_traces"] = len(seg_traces)
    sst["random_pipelines"] = n_seg_random
    sst["violations_by_kind"] = seg_counts
    sst["wall_s"] = round(time.time() - ts, 1)
    sst["judged_by"] = ("monitor only (application calls = the (method, path, body) the client sent, in order; exact wire bytes against the lone-run "
                        "oracle: each request alone on a fresh connection delivered whole; never mixed; one queue entry; exactly once at "
                        "quiescence); NOT replayed on Model/ChanPipe.v: the model abstracts parsing (a request is an id, `received` consumes whole items)")
    sst["samples"] = seg_samples

    # 7. failing applications x configuration knobs, and the inactivity reaper with a slow request in service: MONITOR ONLY
    tf = time.time()
    fault_budget = 70.0 if thorough else 7.0
    fst = {"runs": 0, "overrun": 0, "justified_stalls": 0, "inconclusive_step_budget": 0, "violating_runs": 0,
           "fault_position": {}, "exception_class": {}, "via": {}, "log_socket_errors": {}, "expose_tracebacks": {}, "response_framing": {},
           "lookahead": {}, "pipeline_length": {}, "policies": {}, "granularity": {}, "application_raised": 0, "application_calls": 0,
           "responses_read_by_client": {"cl": 0, "chunked": 0, "eof": 0, "cut short (last, connection closed)": 0, "500": 0},
           "reaper": {"runs_with_maintenance": 0, "maintenance_invocations": 0, "clock_ticks": 0, "runs_with_request_in_service_past_channel_timeout": 0,
                      "channels_reaped": 0}}
    fault_traces = set()
    fault_best = {}
    fault_counts = {}
    fault_samples = []

    def bump(d, k):
        d[str(k)] = d.get(str(k), 0) + 1

    def fault_one(name, scn, policy=None, pk="default"):
        w = H.FaultWorld(scn, policy=policy)
        w.run()
        fst["runs"] += 1
        fst["overrun"] += w.verdict == "overrun"
        fst["justified_stalls"] += w.stall is not None
        fst["inconclusive_step_budget"] += (w.verdict == "overrun" and w.stall is None)
        bump(fst["policies"], pk)
        bump(fst["granularity"], scn.granularity)
        bump(fst["lookahead"], scn.lookahead)
        bump(fst["pipeline_length"], len(scn.reqs))
        bump(fst["log_socket_errors"], scn.log_socket_errors)
        bump(fst["expose_tracebacks"], scn.expose_tracebacks)
        for r in scn.reqs:
            bump(fst["response_framing"], r.resp)
            if r.fault:
                bump(fst["fault_position"], r.fault[0])
                bump(fst["exception_class"], r.fault[1])
                bump(fst["via"], r.fault[2])
        fst["application_raised"] += len(w.raised)
        fst["application_calls"] += len(w.calls)
        parsed = H.client_parse(w.wire)
        for pr in parsed:
            if pr["complete"]:
                fst["responses_read_by_client"][pr["framing"]] += 1
                fst["responses_read_by_client"]["500"] += pr["status"].startswith(b"HTTP/1.1 500") or pr["status"].startswith(b"HTTP/1.0 500")
            elif pr["framing"] == "eof":
                fst["responses_read_by_client"]["eof"] += 1
            else:
                fst["responses_read_by_client"]["cut short (last, connection closed)"] += 1
        if scn.maint:
            rp = fst["reaper"]
            rp["runs_with_maintenance"] += 1
            rp["maintenance_invocations"] += w.listener.runs
            rp["clock_ticks"] += w.ticks
            rp["runs_with_request_in_service_past_channel_timeout"] += any(r.slow and r.slow[0] * r.slow[1] > scn.channel_timeout for r in scn.reqs)
            rp["channels_reaped"] += sum(1 for e in w.sched.events if e[1] == "reaped")
        fault_traces.add(hashlib.sha1((json.dumps(scn.to_json(), sort_keys=True) + "|" + ",".join(map(str, w.sched.choices))).encode()).hexdigest())
        bad = H.fault_monitor(w)
        if bad:
            fst["violating_runs"] += 1
            mon_ok[0] = False
        for key, text in bad:
            fault_counts[key] = fault_counts.get(key, 0) + 1
            rep = replay_dict("monitor-fault", name, scn, w, {
                "granularity": scn.granularity, "policy": pk, "configuration": scn.cfg(),
                "expected": "reading the wire as a client (status line, Content-Length / chunked / EOF framing): every response the client can "
                            "delimit is the lone response of the next request in order; a response cut short is last and the connection is closed; "
                            "nothing follows a response whose lone run closes the connection; a healthy pipeline is executed and answered completely",
                "observed": text, "application_calls": list(w.calls), "application_raised": list(w.raised),
                "client_reading": [[pr["framing"], pr["complete"], len(pr["raw"]), (pr["status"] or b"").decode("latin-1")] for pr in parsed],
                "wire_hex": w.wire.hex()[:900], "stall_justification": w.stall,
                "clock_advanced_s": w.sched.clock - 1000.0, "maintenance_invocations": w.listener.runs if w.listener else 0})
            if key not in fault_best or len(json.dumps(rep)) < len(json.dumps(fault_best[key])):
                fault_best[key] = rep
        return w, parsed

    for name, scn in H.fault_directed() + H.maint_directed():
        if fst["violating_runs"] >= 16:
            break
        w, parsed = fault_one(name, scn)
        if len(fault_samples) < 4 and (name.startswith("cl-fault-mid-OSError-iter-lse0") or name.startswith("slow-middle-la1-w2")
                                       or name.startswith("fault-before-start-lse0-exp1") or name.startswith("eof-fault-1")):
            fault_samples.append({"scenario": name, "configuration": scn.cfg(), "lookahead": scn.lookahead,
                                  "requests": [[r.path, r.resp, r.fault, r.slow] for r in scn.reqs], "application_calls": list(w.calls),
                                  "client_reading (framing, complete, bytes, status)": [[pr["framing"], pr["complete"], len(pr["raw"]), (pr["status"] or b"").decode("latin-1")] for pr in parsed],
                                  "connection_closed": bool(w.sock.closed), "clock_advanced_s": w.sched.clock - 1000.0,
                                  "maintenance_invocations": w.listener.runs if w.listener else 0})
        for i in range(8 if thorough else 2):
            r = random.Random(rng.getrandbits(48))
            if i % 2:
                fault_one(name, scn, policy=H.PCTPolicy(r, 1 + (i // 2) % 3, 150), pk="pct")
            else:
                fault_one(name, scn, policy=H.RandomPolicy(r, stay=r.choice([0.0, 0.5, 0.9, 0.97])), pk="random")
    n_fault_random = 0
    while time.time() - tf < fault_budget and n_fault_random < (5000 if thorough else 500) and fst["violating_runs"] < 16:
        r = random.Random(rng.getrandbits(48))
        scn = H.gen_fault_scenario(r)
        k = n_fault_random % 3
        if k == 0:
            fault_one("fault-random-%d" % n_fault_random, scn)
        elif k == 1:
            fault_one("fault-random-%d" % n_fault_random, scn, policy=H.RandomPolicy(r, stay=r.choice([0.0, 0.5, 0.9, 0.97])), pk="random")
        else:
            fault_one("fault-random-%d" % n_fault_random, scn, policy=H.PCTPolicy(r, r.randint(1, 3), 150 if scn.granularity == "locks" else 500), pk="pct")
        n_fault_random += 1
    for key, rep in sorted(fault_best.items()):
        rep["runs_with_this_violation"] = fault_counts[key]
        stats["monitor_violations"] += fault_counts[key]
        report("monitor-fault:" + key, rep["observed"], rep)
    ctx.oblige("C04 client-side reading of the wire clean on pipelines with failing applications x log_socket_errors x expose_tracebacks x response "
               "framing x lookahead, and with a slow request in service past channel_timeout under the real maintenance() (%d runs, %d application "
               "exceptions, %d runs with a request in service past channel_timeout; monitor only)"
               % (fst["runs"], fst["application_raised"], fst["reaper"]["runs_with_request_in_service_past_channel_timeout"]),
               not fault_best and fst["application_raised"] > 0 and fst["reaper"]["runs_with_request_in_service_past_channel_timeout"] > 0)
    fst["distinct_traces"] = len(fault_traces)
    fst["random_scenarios"] = n_fault_random
    fst["violations_by_kind"] = fault_counts
    fst["wall_s"] = round(time.time() - tf, 1)
    fst["judged_by"] = ("monitor only: the wire read as a client reads it (status line, Content-Length / chunked / EOF framing) against the lone runs "
                        "(each request alone on a fresh connection under the same adjustments, Date header excluded): delimitable responses equal the "
                        "lone responses in order, a short or close-delimited response is last and closes the connection (also in its lone run), nothing "
                        "after a closing response, calls are a prefix of the pipeline, a healthy pipeline is executed and answered completely with the "
                        "connection open; plus never-mixed / one-queue-entry / justified stall.  NOT replayed on Model/ChanPipe.v: the model has no "
                        "application failures, no adjustments besides lookahead / send_bytes, no maintenance()")
    fst["samples"] = fault_samples

    # -- K-chanout: the byte-level output queue (Model/ChanOut.v over Model/Buffers.v) -------------------
    from harness import chanout as HO
    co_runner = ctx.runner("chanout", "ExtChanout.v")
    cst = {"cases": 0, "ops_compared": 0, "would_wait": 0, "disagreements": 0, "spec_problems": 0, "dist": {}, "big_cases": 0}
    co_fail = []
    co_nontrivial = set()
    if co_runner is None:
        ctx.oblige("extracted ChanOut model runner builds", False, "see notes")
    else:
        n_co = 30000 if thorough else 2500
        co_cases = [HO.gen_case(rng, big=(i % 20 == 19)) for i in range(n_co)]
        for k in range(0, n_co, 500):
            chunk = co_cases[k:k + 500]
            answers = co_runner.query([HO.model_line(c) for c in chunk])
            for c, a in zip(chunk, answers):
                rows, problems = HO.run_real(c)
                cst["cases"] += 1
                cst["big_cases"] += 1 if c["cfg"][0] == 8192 else 0
                cst["ops_compared"] += len(rows)
                HO.case_stats(c, cst["dist"])
                if "would-wait" in rows:
                    cst["would_wait"] += 1
                if any(r.startswith("wire=") and not r.startswith("wire=- ") for r in rows):
                    co_nontrivial.add(hashlib.sha1(json.dumps(c, sort_keys=True).encode()).hexdigest())
                d = HO.compare(rows, a)
                if problems:
                    cst["spec_problems"] += 1
                    co_fail.append(("spec", c, problems[0]))
                if d is not None:
                    cst["disagreements"] += 1
                    co_fail.append(("model", c, d))
        for kind, c, d in sorted(co_fail, key=lambda t: (t[0] != "spec", len(json.dumps(t[1]))))[:3]:
            def still(c2, kind=kind):
                rows2, pr2 = HO.run_real(c2)
                if kind == "spec":
                    return bool(pr2)
                return HO.compare(rows2, co_runner.query([HO.model_line(c2)])[0]) is not None
            c_min = HO.shrink(c, still)
            rows2, pr2 = HO.run_real(c_min)
            d2 = pr2[0] if kind == "spec" and pr2 else HO.compare(rows2, co_runner.query([HO.model_line(c_min)])[0])
            if kind == "spec":
                what = "output queue of the real channel (write_soon / _flush_some, single thread): operation %d: %s" % (d2[0] + 1, d2[1])
                rep = {"kind": "chanout", "case": c_min, "against": "spec", "expected": "socket bytes ++ queued bytes = written bytes, in order; no empty send; total_outbufs_len exact; last buffer writable",
                       "observed": d2[1], "failing_input_found": True}
            else:
                what = "real write_soon / _flush_some and Model/ChanOut.v disagree at operation %d: model %s | real %s" % (d2[0] + 1, d2[1], d2[2])
                rep = {"kind": "chanout", "case": c_min, "against": "model", "expected": d2[1], "observed": d2[2],
                       "failing_input_found": False,
                       "note": "the theorems C04_out_bytes_fifo / C04_flush_some speak for the code only while this correspondence holds; the specification was judged on the same run and did not complain"}
            ctx.report("chanout:%s:%s" % (kind, hashlib.sha1(json.dumps(c_min, sort_keys=True).encode()).hexdigest()[:8]), what, rep)
        ctx.oblige("K-chanout: the real HTTPChannel.write_soon / _flush_some over real OverflowableBuffer / ReadOnlyFileBasedBuffer objects agree with "
                   "Model/ChanOut.v after every operation (socket bytes, how the flush ended, its return value, total_outbufs_len, current_outbuf_count, "
                   "kind and length of every output buffer) on %d histories / %d operations" % (cst["cases"], cst["ops_compared"]),
                   cst["disagreements"] == 0 and cst["cases"] > 0)
        ctx.oblige("S-chanout: on the same real runs the socket's bytes followed by a final drain are exactly the written bytes in order, no empty chunk is "
                   "offered to send(), total_outbufs_len equals the sum of the buffers' lengths after every operation and the last buffer is writable",
                   cst["spec_problems"] == 0)
    cst["distinct_nontrivial"] = len(co_nontrivial)

    ctx.oblige("K-chanpipe: every operation of every real trace is a step of Model/ChanPipe.v with the same label "
               "and the same abstract state (%d traces, %d steps)" % (stats["validated_traces"], stats["validated_steps"]),
               conf_ok[0] and stats["validated_traces"] > 0)
    ctx.oblige("C04 monitor clean on every real run (wire, call order, never mixed, one queue entry, exactly once at quiescence)", mon_ok[0])
    ctx.oblige("the theorem predicates (extracted: wire, once, one-at-a-time, one-entry, quiescent) hold in every model "
               "state reached along the real traces", flags_ok[0])
    ctx.oblige("F18 regression: the stored schedule and %d more schedules of its scenario are clean on this tree"
               % (60 if thorough else 12), f18_clean)
    ctx.oblige("F18 in the extracted model: the witness schedule duplicates the chunk for the old shape of handle_write "
               "(p_unlocked=1) and not for the current one", model_old_refuted and model_new_ok,
               "old: %s | new: %s" % (old_last[-60:], new_fields[-1][-60:]))

    ctx.coverage.update({
        "rule": "real HTTPChannel/dispatcher/poll traces under the deterministic scheduler mapped step by step to the extracted "
                "model (label + abstract state after every step); C04 monitor on every run; ast shape audit of 15 methods; "
                "plus monitor-only runs in which output buffers change representation under partial sends (buffer_representation_search; "
                "counted in evaluations, not in traces_validated_against_impl) and monitor-only runs of mixed-framing pipelines "
                "(body-less / Content-Length / chunked) under generated segmentations (segmentation_search; likewise)",
        "evaluations": stats["runs"] + bst["runs"] + sst["runs"] + fst["runs"],
        "traces_validated_against_impl": stats["validated_traces"],
        "steps_validated": stats["validated_steps"],
        "distinct_nontrivial": len(nontrivial),
        "distinct_model_states_visited": len(states),
        "model_program_points_visited": len(pcs),
        "model_program_points_list": sorted(pcs)[:200],
        "stats": stats,
        "policies": policies,
        "exploration": ex_stats,
        "scenario_distribution": H.scenario_dist(scns_seen),
        "samples": samples,
        "shape_audit_methods": sorted(list(H.EXPECTED_SHAPE) + list(H.EXPECTED_DISPATCHER_SHAPE)),
        "buffer_representation_search": bst,
        "segmentation_search": sst,
        "application_fault_and_reaper_search": fst,
        "byte_level_output_queue": cst,
        "f18_regression": {"stored_schedule_clean": f18_clean, "model_old_shape_refuted": model_old_refuted,
                           "model_current_shape_ok": model_new_ok},
    })


def replay(data):
    H = _H()
    if data.get("kind") == "chanout":
        from harness import chanout as HO
        rows, problems = HO.run_real(data["case"])
        for op, r in zip(data["case"]["ops"], rows):
            print("  %-40s -> %s" % (json.dumps(op)[:40], r))
        print("specification now: %r" % (problems,))
        d = None
        rp = os.path.join(vcommon.VERIF, "ocaml", "chanout", "runner")
        if os.path.exists(rp):
            d = HO.compare(rows, vcommon.Runner(rp).query([HO.model_line(data["case"])])[0])
            print("model comparison now: %r" % (d,))
        return 1 if (problems or d) else 0
    if data.get("kind") == "monitor-buf":
        scn = H.BufScenario.from_json(data["scenario"])
        w = H.BufWorld(scn, schedule=data["choices"])
        w.run()
        bad = H.buf_monitor(w)
        print("kind=monitor-buf scenario=%s verdict=%s steps=%d wire=%d bytes (%s) migrations=%r" % (
            data.get("scenario_name"), w.verdict, len(w.sched.choices), len(w.wire), H.check_wire(scn, w.wire)[3], w.migrations))
        print("stall verdict now: %r" % (H.stall_verdict(w),))
        print("monitor now: %r" % (bad,))
        print("observed then: %s" % (data.get("observed"),))
        return 1 if bad else 0
    if data.get("kind") == "monitor-fault":
        scn = H.FaultScenario.from_json(data["scenario"])
        w = H.FaultWorld(scn, schedule=data["choices"])
        w.run()
        bad = H.fault_monitor(w)
        print("kind=monitor-fault scenario=%s verdict=%s wire=%d bytes configuration=%r lookahead=%d" % (
            data.get("scenario_name"), w.verdict, len(w.wire), scn.cfg(), scn.lookahead))
        print("application calls now: %r raised: %r clock advanced: %ss maintenance ran: %s" % (
            w.calls, w.raised, w.sched.clock - 1000.0, w.listener.runs if w.listener else 0))
        print("client reading now: %r" % ([[pr["framing"], pr["complete"], len(pr["raw"])] for pr in H.client_parse(w.wire)],))
        print("monitor now: %r" % (bad,))
        print("observed then: %s" % (data.get("observed"),))
        return 1 if bad else 0
    if data.get("kind") == "monitor-seg":
        scn = H.SegScenario.from_json(data["scenario"])
        w = H.SegWorld(scn, schedule=data["choices"])
        w.run()
        bad = H.seg_monitor(w)
        print("kind=monitor-seg scenario=%s verdict=%s wire=%d bytes cuts=%r lookahead=%d" % (data.get("scenario_name"), w.verdict, len(w.wire), scn.cuts[:30], scn.lookahead))
        print("application calls now: %r" % ([[c[0], c[1], bytes.fromhex(c[2])] for c in w.calls],))
        print("monitor now: %r" % (bad,))
        print("observed then: %s" % (data.get("observed"),))
        return 1 if bad else 0
    scn = H.Scenario.from_json(data["scenario"])
    w = H.PipeWorld(scn, schedule=data["choices"])
    w.run()
    bad = H.monitor(w)
    runner_path = os.path.join(vcommon.VERIF, "ocaml", "chanpipe", "runner")
    mis = None
    if os.path.exists(runner_path):
        try:
            n, mis, flags = H.validate(w, vcommon.Runner(runner_path))
        except Exception as e:
            mis = {"why": repr(e)}
    print("kind=%s scenario=%s verdict=%s wire=%d bytes" % (data.get("kind"), data.get("scenario_name"), w.verdict, len(w.wire)))
    print("monitor now: %r" % (bad,))
    print("conformance now: %r" % (mis,))
    print("expected: %s" % data.get("expected"))
    print("observed then: %s" % (data.get("observed"),))
    if data.get("kind") == "monitor":
        return 1 if bad else 0
    if data.get("kind") == "conformance":
        return 1 if mis else 0
    return 1 if (bad or mis) else 0
