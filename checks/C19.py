"""C19 -- Expect: 100-continue is answered correctly and the request is never lost.

Decided by: Coq proofs (Props/C19.v) on two layers -- the transliterated
HTTPChannel.received / HTTPRequestParser (Model/ChanSeq.v, Model/Parser.v: every
byte stream, every segmentation) and the narrow interleaving model of
received() / send_continue() / the tail of service() (Model/ChanExpect.v: every
schedule, any number of workers), the first proved to be the I/O thread of the
second.  Tied to the code by
  K-chanseq     the real HTTPChannel.received vs the extracted ChanSeq model on
                pipelines of expecting / non-expecting requests (state after every read),
  K-chanexpect  runs of the real channel + real dispatcher + real poll loop under
                the deterministic scheduler, mapped to choices of the extracted
                interleaving model; abstract state compared after every step,
  shape audit   ast of received / send_continue / service against the signature
                written in the model file.
Search: the property's monitor (wire bytes + application calls + "the waiting
client is not left waiting") on sequential scripts and on interleaved runs
(random, PCT, bounded exhaustive)."""
import collections
import hashlib
import json
import random
import time

from lib import vcommon
from lib.vcommon import hexb
from harness import chanexpect as H
from harness import parser_corr, parser_h

LEVEL = "proof"
ASSUMPTIONS = [
    "the interleaving model Model/ChanExpect.v records the ORDER OF APPENDS to the output buffers (interim / final-response chunks); that the bytes reach the wire in that order, once, contiguously is C04/C17's claim (the check still flags any socket.send made while another thread holds outbuf_lock: former finding F18, repaired by fix 8bcf05e)",
    "pre-emption only at the labelled operations of harness/chan_world (lock operations, socket calls, trigger pulls; attribute accesses in the 'attrs' granularity): sequential consistency, GIL-atomic attribute loads and stores",
    "HTTPChannel.cancel() (server shutdown) is not represented (since fix 48f7fa0 the flush inside send_continue goes through _flush_exception: a send error sets will_close -- the environment step CWillClose -- and no exception leaves send_continue)",
    "close_when_flushed is not reset in the model (handle_write turns it into will_close and closes the channel)",
    "the dispatcher runs service() of a channel once per add_task (C14)",
]



def _h(obj):
    return hashlib.sha1(json.dumps(obj, sort_keys=True, default=str).encode()).hexdigest()


# ---------------------------------------------------------------------------
# sequential search


def seq_case(ctx, rng, stats, allow_kf=True):
    reqs = H.gen_pipeline(rng, allow_kf=allow_kf)
    script = H.gen_script(rng, reqs)
    la = rng.choice([0, 0, 1, 3])
    return reqs, script, la


def seq_check(reqs, script, la):
    res = H.run_sequential(reqs, script, la)
    waited = [s[1] for s in script if s[0] == "check_interim"]
    probs = H.monitor(reqs, res["sent"], res["calls"], res["checks"], complete=True, waited=waited)
    if res["escaped"]:
        probs.append("an exception escaped received()/service(): %s" % res["escaped"])
    return res, probs


def seq_replay_dict(reqs, script, la, probs, res):
    return {
        "kind": "seq", "failing_input_found": True,
        "requests": [r.to_json() for r in reqs], "script": H.script_to_json(script), "lookahead": la,
        "pipeline_text": [r.head().decode("latin-1") + r.payload().decode("latin-1") for r in reqs],
        "expected": "C19 monitor: no problem", "observed": probs[:6],
        "wire": res["sent"].decode("latin-1")[:1500],
        "send_continue_on_completed_request": res["kf_hits"],
    }


def shrink_seq(reqs, script, la):
    """drop requests / merge reads while the monitor still complains (and the class stays the same)"""
    _, probs = seq_check(reqs, script, la)
    best = (reqs, script, la)
    for _ in range(3):
        reqs, script, la = best
        for k in range(len(reqs) - 1, -1, -1):
            if len(reqs) <= 1:
                break
            cand = [H.Req(i, r.kind, r.body, r.close) for i, r in enumerate(reqs[:k] + reqs[k + 1:])]
            rng = random.Random(k)
            for style in ("waiting", "eager"):
                sc = H.gen_script(rng, cand, style)
                _, p2 = seq_check(cand, sc, la)
                if p2:
                    best = (cand, sc, la)
                    break
            if best[0] is not reqs:
                break
        if best[0] is reqs:
            break
    return best


# ---------------------------------------------------------------------------
# interleaved search


WORLD_SCENARIOS = [
    # (name, kinds, mode, lookahead)
    ("get_then_expect_same_read", ["get", "expect_cl"], "same_read", 0),
    ("get_then_expect_later_read", ["get", "expect_cl"], "later_read", 1),
    ("expect_alone_then_get", ["expect_cl", "get"], "later_read", 0),
    ("two_expecting", ["expect_cl", "expect_chunked"], "same_read", 0),
    ("post_expect_expect", ["post_cl", "expect_cl_case", "expect_cl_ws"], "same_read", 2),
    ("expect10_between", ["get", "expect10", "expect_cl"], "later_read", 1),
    ("not_asking", ["get", "expect_other", "expect_list"], "same_read", 1),
    ("close_before_expect", ["get_close", "expect_cl"], "same_read", 0),
    ("refused_then_expect", ["badcl", "expect_cl"], "same_read", 0),
    ("three_deep", ["get", "post_chunked", "expect_cl"], "same_read", 3),
    # clients that do not wait (timer expired): body bytes may arrive before the interim response
    ("get_then_expect_split_same", ["get", "expect_cl"], "split_same", 0),
    ("get_then_expect_split_body", ["get", "expect_cl"], "split_body", 0),
    ("get_then_expect_split_body_la1", ["get", "expect_cl"], "split_body", 1),
    ("two_expecting_split_body", ["expect_cl", "expect_chunked"], "split_body", 1),
    ("get_then_expect_eager", ["get", "expect_cl"], "eager_same", 0),
    ("expect_expect_eager", ["expect_cl", "get", "expect_cl_case"], "eager", 2),
]


def scenario_reqs(kinds, rng):
    reqs = []
    for i, k in enumerate(kinds):
        close = False
        if k == "get_close":
            k, close = "get", True
        body = bytes(rng.choice(b"abcxyz0123") for _ in range(rng.choice([2, 3, 9, 30])))
        reqs.append(H.Req(i, k, body, close))
    return reqs


def world_case(reqs, script, la, n_workers, big_first, policy=None, schedule=(), granularity="locks", max_steps=3000):
    w = H.make_world(reqs, script, schedule=schedule, policy=policy, lookahead=la, n_workers=n_workers,
                     big_first=big_first, granularity=granularity, max_steps=max_steps)
    v = w.run()
    return w, v


def world_replay_dict(kind, reqs, script, la, n_workers, big_first, granularity, w, what, waited=()):
    return {
        "kind": kind, "failing_input_found": True,
        "requests": [r.to_json() for r in reqs],
        "client_script": [[s[0], hexb(s[1]) if isinstance(s[1], (bytes, bytearray)) else s[1]] for s in script],
        "lookahead": la, "n_workers": n_workers, "big_first": big_first, "granularity": granularity,
        "waited": list(waited), "choices": list(w.sched.choices),
        "expected": "C19 monitor: no problem / model step enabled with equal abstract state",
        "observed": what if isinstance(what, list) else [what],
        "wire": w.wire.decode("latin-1")[:1500],
        "send_continue_on_completed_request": list(w.kf_hits),
    }


def script_from_json(js):
    out = []
    for s in js:
        if s[0] == "send":
            out.append(("send", vcommon.unhexb(s[1])))
        else:
            out.append((s[0], s[1]))
    return out


def run(ctx):
    ctx.gate()
    ctx.props()
    ctx.build(["Model/ChanExpect.vo", "Model/ChanSeq.vo"])
    thorough = ctx.tier == "thorough"
    rng = ctx.rng
    cov = ctx.coverage
    samples = []

    # ---- shape audit --------------------------------------------------------
    try:
        real_sig = H.channel_signature()
    except Exception as e:  # the source no longer has the expected shape at all
        real_sig = ["<audit failed: %r>" % (e,)]
    model_sig = H.model_signature()
    sig_ok = model_sig is not None and real_sig == model_sig
    ctx.oblige("shape audit: received / send_continue / service / parse_header have the shape the model was written against", sig_ok,
               "" if sig_ok else "signature differs")
    sig_diff = []
    if not sig_ok:
        import difflib
        sig_diff = [l for l in difflib.unified_diff(model_sig or [], real_sig, "model", "source", lineterm="", n=1)][:40]

    # ---- runners -------------------------------------------------------------
    runner_ce = ctx.runner("chanexpect", "ExtChanexpect.v")
    runner_p = ctx.runner("parser", "ExtParser.v")
    ctx.oblige("extracted models build (chanexpect, parser)", runner_ce is not None and runner_p is not None)

    t_own = time.time()     # everything below is the check's own work (no Coq build)

    # ---- K-chanseq on C19 pipelines ----------------------------------------------
    n_corr = 3000 if thorough else 250
    corr_cases = []
    for _ in range(n_corr):
        reqs = H.gen_pipeline(rng)
        script = H.gen_script(rng, reqs)
        reads = [s[1] for s in script if s[0] == "read"]
        tags = {"stream": "c19", "n": len(reqs), "framings": [r.kind for r in reqs], "mutations": []}
        corr_cases.append(("chan", 262144, H.MAX_BODY, reads, tags))
        whole = b"".join(reads)
        corr_cases.append(("chan", 262144, H.MAX_BODY, [whole], tags))
        if len(whole) <= 300 and rng.random() < 0.3:
            corr_cases.append(("chan", 262144, H.MAX_BODY, [whole[i:i + 1] for i in range(len(whole))], tags))
    corr_ok = False
    corr_stats = {}
    if runner_p is not None:
        corr_stats, bad = parser_corr.run_cases(runner_p, corr_cases)
        corr_ok = not bad and corr_stats["unmodelled"] == 0
        for d in bad[:2]:
            d = parser_corr.shrink(runner_p, d)
            ctx.report("K-chanseq:" + _h(d["difference"])[:8],
                       "HTTPChannel.received and Model/ChanSeq.v disagree on an Expect pipeline",
                       {"kind": "chanseq", "failing_input_found": True, "mh": d["mh"], "mb": d["mb"], "reads": d["reads"],
                        "expected": d["model"][-1][:600], "observed": d["impl"][-1][:600], "difference": d["difference"]})
    ctx.oblige("K-chanseq: real HTTPChannel.received agrees with Model/ChanSeq.v after every read (Expect pipelines)", corr_ok,
               "" if corr_ok else "disagreements or unmodelled cases")

    # ---- sequential search ----------------------------------------------------------
    n_seq = 30000 if thorough else 1500
    seq_stats = collections.Counter()
    kinds_seen = collections.Counter()
    nontrivial = set()
    seq_viol = []
    kf_seen = collections.Counter()
    for it in range(n_seq):
        reqs, script, la = seq_case(ctx, rng, seq_stats)
        res, probs = seq_check(reqs, script, la)
        seq_stats["runs"] += 1
        seq_stats["requests"] += len(reqs)
        seq_stats["reads"] += sum(1 for s in script if s[0] == "read")
        seq_stats["interims_on_wire"] += res["sent"].count(H.INTERIM)
        seq_stats["wait_points"] += len(res["checks"])
        for r in reqs:
            kinds_seen[r.kind] += 1
        if any(r.asks for r in reqs):
            nontrivial.add(_h([[r.kind, len(r.body), r.close] for r in reqs] + [[s[0], len(s[1]) if s[0] == "read" else 0] for s in script] + [la]))
        if H.complete_at_head_hit(reqs, res["kf_hits"]):
            seq_stats["send_continue_on_completed_request"] += 1   # the class of the former F5/F6
        if probs:
            seq_viol.append((reqs, script, la))
            seq_stats["violations"] += 1
    for reqs, script, la in seq_viol[:3]:
        reqs, script, la = shrink_seq(reqs, script, la)
        res, probs = seq_check(reqs, script, la)
        ctx.report("seq-monitor:" + (probs[0][:40] if probs else "?"), "C19 monitor fails on a sequential script: " + "; ".join(probs[:2]),
                   seq_replay_dict(reqs, script, la, probs, res))
    ctx.oblige("search (sequential): C19 monitor holds on every script", not seq_viol,
               "%d violating scripts" % len(seq_viol))
    if len(samples) < 3:
        reqs, script, la = seq_case(ctx, random.Random(1), seq_stats)
        samples.append({"sequential_script": {"requests": [r.kind for r in reqs], "steps": [s[0] for s in script], "lookahead": la}})

    # ---- interleaved search + K-chanexpect ------------------------------------------------
    from harness.sched import RandomPolicy, PCTPolicy, explore
    w_stats = collections.Counter()
    conf_fail = []
    mon_fail = []
    model_schedules = set()
    steps_validated = 0
    traces_validated = 0

    def judge(reqs, script, waited, la, nw, bf, gran, w, v, do_conf=True):
        nonlocal steps_validated, traces_validated
        w_stats["runs"] += 1
        w_stats["verdict_" + str(v)] += 1
        w_stats["interims_on_wire"] += w.wire.count(H.INTERIM)
        worker_sent = sum(1 for e in w.sched.events if e[1] == "send_continue" and e[0] != "io")
        io_sent = sum(1 for e in w.sched.events if e[1] == "send_continue" and e[0] == "io")
        w_stats["send_continue_by_worker"] += worker_sent
        w_stats["send_continue_by_io"] += io_sent
        race = H.concurrent_flush(w)
        if race:
            w_stats["unlocked_flush_race"] += 1
        probs = H.world_monitor(w, reqs, waited, v, bf)
        if H.complete_at_head_hit(reqs, w.kf_hits):
            w_stats["send_continue_on_completed_request"] += 1
        if race:
            # repaired by fix 8bcf05e (handle_write takes outbuf_lock also when requests == []):
            # any socket.send concurrent with another thread's locked flush is a violation
            probs = list(probs) + ["two threads flush the output buffers concurrently (socket.send while another thread holds outbuf_lock)"]
        if probs:
            mon_fail.append((reqs, script, la, nw, bf, gran, w, probs, waited))
        if do_conf and runner_ce is not None and gran == "locks" and v != "overrun":
            n, prob, choices = H.compare_run(w, runner_ce)
            steps_validated += n
            if prob:
                conf_fail.append((reqs, script, la, nw, bf, gran, w, prob, waited))
            else:
                traces_validated += 1
                if any(c.startswith("D") or c == "S" for c in choices):
                    model_schedules.add(_h(choices))
        return probs

    n_rand = 100 if thorough else 6          # schedules per scenario and policy family
    for name, kinds, mode, la in WORLD_SCENARIOS:
        for variant in range(2):
            reqs = scenario_reqs(kinds, rng)
            script, waited = H.world_script(reqs, mode)
            bf = variant == 1 and kinds[0] in ("get", "get_close")
            nw = 1 + variant
            w, v = world_case(reqs, script, la, nw, bf)
            judge(reqs, script, waited, la, nw, bf, "locks", w, v)
            for k in range(n_rand):
                seed = rng.randrange(1 << 30)
                pol = RandomPolicy(random.Random(seed), stay=rng.choice([0.0, 0.5, 0.8]))
                w, v = world_case(reqs, script, la, nw, bf, policy=pol)
                judge(reqs, script, waited, la, nw, bf, "locks", w, v)
                pol = PCTPolicy(random.Random(seed + 1), rng.choice([1, 2, 3]), rng.choice([60, 120, 200]))
                w, v = world_case(reqs, script, la, nw, bf, policy=pol)
                judge(reqs, script, waited, la, nw, bf, "locks", w, v)
            for k in range(max(1, n_rand // 4)):   # attribute-access granularity: monitor only
                seed = rng.randrange(1 << 30)
                pol = RandomPolicy(random.Random(seed), stay=0.7)
                w, v = world_case(reqs, script, la, nw, bf, policy=pol, granularity="attrs", max_steps=8000)
                judge(reqs, script, waited, la, nw, bf, "attrs", w, v, do_conf=False)
    # clients that send body bytes before the interim response arrives, pre-empted at
    # attribute-access granularity (the window between the worker's pop and its
    # send_continue, and between the I/O thread's received() and its next readable())
    n_attr = 1000 if thorough else 120
    at_reqs = [H.Req(0, "get"), H.Req(1, "expect_cl", b"wxyz")]
    for mode, la, stay, share in (("split_body", 1, 0.7, 1.0), ("split_same", 0, 0.9, 0.6), ("eager", 1, 0.8, 0.3)):
        script, waited = H.world_script(at_reqs, mode)
        for k in range(int(n_attr * share)):
            pol = RandomPolicy(random.Random(rng.randrange(1 << 30)), stay=stay)
            w, v = world_case(at_reqs, script, la, 1, False, policy=pol, granularity="attrs", max_steps=8000)
            judge(at_reqs, script, waited, la, 1, False, "attrs", w, v, do_conf=False)
            w_stats["attrs_nonwaiting_client_runs"] += 1
    # generated pipelines (including the class of the former F5/F6) under random schedules
    n_gen = 5000 if thorough else 200
    for it in range(n_gen):
        reqs = H.gen_pipeline(rng, allow_kf=(it % 4 == 0), n=rng.choice([2, 2, 3]))
        mode = rng.choice(["same_read", "later_read", "split_same", "split_body", "eager_same", "eager"])
        script, waited = H.world_script(reqs, mode)
        la = rng.choice([0, 1, 2])
        nw = rng.choice([1, 2])
        bf = rng.random() < 0.3
        seed = rng.randrange(1 << 30)
        pol = rng.choice([None, RandomPolicy(random.Random(seed), stay=0.6), PCTPolicy(random.Random(seed), rng.choice([1, 2, 3]), 120)])
        w, v = world_case(reqs, script, la, nw, bf, policy=pol)
        judge(reqs, script, waited, la, nw, bf, "locks", w, v)
    # bounded exhaustive exploration of the smallest scenario
    ex_limit = 8000 if thorough else 250
    ex_reqs = [H.Req(0, "get"), H.Req(1, "expect_cl", b"xy")]
    ex_script, ex_waited = H.world_script(ex_reqs, "same_read")

    def run_case(prefix):
        w = H.make_world(ex_reqs, ex_script, schedule=prefix, lookahead=0, n_workers=1, max_steps=3000)
        v = w.run()
        judge(ex_reqs, ex_script, ex_waited, 0, 1, False, "locks", w, v)
        return w.sched

    ex = explore(run_case, 3 if thorough else 1, limit=ex_limit)
    w_stats["explore_runs"] = ex["runs"]
    w_stats["explore_truncated"] = int(ex["truncated"])
    # ... and of the same pipeline with a client that sends half of the body before waiting
    ex2_reqs = [H.Req(0, "get"), H.Req(1, "expect_cl", b"wxyz")]
    ex2_script, ex2_waited = H.world_script(ex2_reqs, "split_same")

    def run_case2(prefix):
        w = H.make_world(ex2_reqs, ex2_script, schedule=prefix, lookahead=0, n_workers=1, max_steps=3000)
        v = w.run()
        judge(ex2_reqs, ex2_script, ex2_waited, 0, 1, False, "locks", w, v)
        return w.sched

    ex2 = explore(run_case2, 3 if thorough else 1, limit=ex_limit)
    w_stats["explore2_runs"] = ex2["runs"]
    w_stats["explore2_truncated"] = int(ex2["truncated"])
    cov["explore"] = {"scenario": "GET /r0 + head of expecting POST /r1 in one send, client waits, then body",
                      "max_preemptions": 3 if thorough else 1, "runs": ex["runs"],
                      "per_preemption_level": ex["per_preemption_level"], "truncated": ex["truncated"],
                      "second_scenario": "the same pipeline, the client sends half of the body before waiting for the interim response",
                      "second_runs": ex2["runs"], "second_per_preemption_level": ex2["per_preemption_level"],
                      "second_truncated": ex2["truncated"]}

    mon_fail.sort(key=lambda t: (len(t[0]), len(t[6].sched.choices)))
    for reqs, script, la, nw, bf, gran, w, probs, waited in mon_fail[:3]:
        ctx.report("world-monitor:" + probs[0][:40], "C19 monitor fails on an interleaved run: " + "; ".join(probs[:2]),
                   world_replay_dict("world", reqs, script, la, nw, bf, gran, w, probs, waited))
    for reqs, script, la, nw, bf, gran, w, prob, waited in conf_fail[:2]:
        ctx.report("K-chanexpect:" + prob.split(":")[0][-30:], "real trace not allowed by Model/ChanExpect.v: " + prob,
                   world_replay_dict("conformance", reqs, script, la, nw, bf, gran, w, prob, waited))
    ctx.oblige("search (interleaved): C19 monitor holds on every run, and no two threads flush concurrently", not mon_fail,
               "%d violating runs" % len(mon_fail))
    ctx.oblige("K-chanexpect: every observed transition is a step of Model/ChanExpect.v with the same abstract state",
               runner_ce is not None and not conf_fail and traces_validated > 0, "%d traces fail" % len(conf_fail))
    if not sig_ok:
        ctx.report("shape-audit", "the source of received / send_continue / service / parse_header differs from the signature the model was written against",
                   {"kind": "shape", "failing_input_found": False, "diff": sig_diff,
                    "note": "re-examine Model/ChanExpect.v and the SIGNATURE block"})

    # ---- byte level: where the interim response lands in the output queue --------------------
    from harness import chanout as HO
    cost = HO.run_slice(ctx, 6000 if ctx.tier == "thorough" else 600, "C19", want_continue=True)
    ctx.oblige("K-chanout (C19 slice): the real send_continue / write_soon / _flush_some agree with Model/ChanOut.v after every operation, and on "
               "the same runs the socket's bytes followed by a final drain are exactly the written bytes with each interim response once and in "
               "place (%d histories, %d send_continue calls, %d of them with a file-wrapper buffer still queued)"
               % (cost["cases"], cost["continue_ops"], cost["continue_behind_file"]),
               cost["cases"] > 0 and cost["disagreements"] == 0 and cost["spec_problems"] == 0 and cost["continue_behind_file"] > 0)

    # ---- evidence --------------------------------------------------------------------------
    cov.update({
        "byte_level_interim_placement": cost,
        "evaluations": seq_stats["runs"] + w_stats["runs"] + len(corr_cases),
        "distinct_nontrivial": len(nontrivial) + len(model_schedules),
        "rule": "sequential: scripts with at least one asking request, distinct by (kinds, body sizes, script shape, lookahead); interleaved: distinct model-level schedules (choice strings) that contain a send_continue step",
        "samples": samples + [{"world_scenarios": [s[0] for s in WORLD_SCENARIOS]}],
        "input_distribution": {
            "request_kinds": dict(kinds_seen),
            "pipeline_lengths": "1..4 (weights 1,2,2,3,3,4)", "lookahead": "0,0,1,3 (sequential); 0..3 (interleaved)",
            "client_styles": "waiting (serve, check interim arrived, then body) / eager / mixed; reads split in 1..3 pieces",
            "schedules": "default, uniformly random with stay probability 0/0.5/0.8, PCT depth 1-3, bounded exhaustive (iterative pre-emption bounding) on the smallest scenario; 1-2 workers; lock and attribute granularity",
        },
        "sequential": dict(seq_stats),
        "interleaved": dict(w_stats),
        "traces_validated_against_impl": traces_validated,
        "model_steps_validated": steps_validated,
        "k_chanseq": {k: corr_stats.get(k) for k in ("evaluations", "reads", "requests_completed", "unmodelled", "distinct_nontrivial")},
        "known_finding_hits": dict(kf_seen),
        "wall_own_work_s": round(time.time() - t_own, 1),
        "shape_audit_lines": len(real_sig),
    })


# ---------------------------------------------------------------------------


def replay(data):
    kind = data.get("kind")
    if kind == "chanout":
        from harness import chanout as HO
        return HO.replay_case(data)
    if kind == "seq":
        reqs = [H.Req.from_json(d) for d in data["requests"]]
        script = H.script_from_json(data["script"])
        res, probs = seq_check(reqs, script, data["lookahead"])
        print("sequential script: %d requests, problems now: %r" % (len(reqs), probs[:4]))
        print("wire: %r" % res["sent"][:400])
        return 1 if probs else 0
    if kind in ("world", "conformance"):
        reqs = [H.Req.from_json(d) for d in data["requests"]]
        script = script_from_json(data["client_script"])
        waited = data.get("waited", [s[1] for s in script if s[0] == "wait_interim"])
        w, v = world_case(reqs, script, data["lookahead"], data["n_workers"], data["big_first"],
                          schedule=data["choices"], granularity=data.get("granularity", "locks"))
        probs = H.world_monitor(w, reqs, waited, v, data["big_first"])
        print("verdict=%s monitor problems now: %r" % (v, probs[:4]))
        rc = 1 if probs else 0
        if kind == "conformance":
            p, _ = vcommon.build_runner("chanexpect", "ExtChanexpect.v")
            if p:
                nsteps, prob, _ = H.compare_run(w, vcommon.Runner(p))
                print("K-chanexpect: %s" % (prob or "ok (%d steps)" % nsteps))
                rc = 1 if prob else rc
        print("wire: %r" % w.wire[:400])
        return rc
    if kind == "chanseq":
        p, _ = vcommon.build_runner("parser", "ExtParser.v")
        reads = [vcommon.unhexb(r) for r in data["reads"]]
        m = vcommon.Runner(p).query([parser_h.model_chan_cmd(data["mh"], data["mb"], reads)])[0].split(" ; ")
        i = parser_h.impl_chan(data["mh"], data["mb"], reads)
        print("model == impl: %s" % (m == i))
        return 0 if m == i else 1
    if kind == "shape":
        ok = H.channel_signature() == H.model_signature()
        print("shape audit: %s" % ("equal" if ok else "differs"))
        return 0 if ok else 1
    print("unknown replay kind")
    return 2
