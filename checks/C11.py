"""C11 -- nothing is executed after the server has decided to close a connection.

Decided by: an inductive invariant of the narrow interleaving model Model/ChanClose.v (all
schedules, all lookahead values, all environment behaviours; Props/C11.v), tied to the code by
(a) K-chan: real traces of the real HTTPChannel + ThreadedTaskDispatcher + wasyncore.poll under
the deterministic scheduler (harness/chan_world.py), observed at attribute-access granularity,
mapped to the model's choices and replayed on the extracted model, comparing the abstract state
(will_close, close_when_flushed, connected, requests, owner of requests_lock, dispatcher entries)
and the labels (decide / service_start / app_call) after every step; (b) an ast shape audit of
the modelled methods; and searched by (c) the property's monitor (extracted, and in Python) on
real traces under random, PCT and bounded-exhaustive schedules.

History (F22, fixed by /repo 64d926d): will_close := True set by _flush_exception (a send error that
is not a disconnect) was neither taken under requests_lock nor consulted by service(): the next
buffered request was executed.  service() now reads will_close next to connected; the theorem
(Props/C11.v, C11) covers every kind of close decision.  The two scenarios that exhibited the
finding are kept as directed cases: reverting the fix is reported with scenario + schedule."""
import errno
import hashlib
import json
import os
import random
import time

from lib import vcommon

LEVEL = "proof"
ASSUMPTIONS = [
    "sequential consistency at the granularity of attribute loads/stores of the channel (GIL); code between two labelled operations of the scheduler harness is thread-local (re-checked by the shape audit for the modelled attributes)",
    "the environment (client, kernel, task) is over-approximated: total_outbufs_len is read as an arbitrary value, select may report whatever was asked for, a flush may fail at any time, a task may end with either verdict",
    "ServiceStart is the entry of HTTPChannel.service(); a request whose service() was entered before the decision is 'in progress', not 'buffered behind'",
    "when a close decision is DUE for a response is taken from the wire (harness/chanclose.py response_due: head incomplete, Connection: close announced, Content-Length not met, chunked body not terminated, close-delimited); the monitor treats that point as a decision of the specification, whatever the task's own verdict was",
    "which socket errors are a close decision is part of the specification (harness/chanclose.py: EWOULDBLOCK none; the six silent-disconnect errnos of wasyncore._DISCONNECTED close on the I/O thread and are swallowed on a worker; every other errno sets will_close on the flushing thread), audited against the source and enforced on every injected errno (K-errno)",
]

F22_SCENARIO = {"msgs": ["get", "get"], "cuts": [], "close": False, "lookahead": 0, "workers": 1,
                "send_plan": [["err", errno.EHOSTUNREACH]]}
F22_IO_SCENARIO = {"msgs": ["get", "get"], "cuts": [], "close": False, "lookahead": 0, "workers": 1,
                   "send_plan": [0, ["err", errno.EHOSTUNREACH]]}
# Directed tiny scenarios for bounded-exhaustive exploration: a closing exchange (Connection: close,
# HTTP/1.0, error response, application failure) with more requests behind it -- in the same read,
# or in later reads (lookahead >= 1 lets the I/O thread read them while the first is served) -- and
# a client slow enough that the closing response needs several handle_write rounds.
TINY = [
    ({"msgs": ["close", "get"], "cuts": ["boundaries"], "close": False, "lookahead": 1, "workers": 1}, "locks", 2),
    ({"msgs": ["v10", "get", "get"], "cuts": ["boundaries"], "close": False, "lookahead": 2, "workers": 2}, "locks", 1),
    ({"msgs": ["close", "get"], "cuts": [], "close": False, "lookahead": 0, "workers": 1}, "locks", 2),
    ({"msgs": ["bad", "get"], "cuts": ["boundaries"], "close": True, "lookahead": 5, "workers": 1}, "locks", 1),
    ({"msgs": ["raise", "get"], "cuts": ["boundaries"], "close": False, "lookahead": 1, "workers": 1}, "attrs", 1),
    ({"msgs": ["close", "get"], "cuts": ["boundaries"], "close": False, "lookahead": 1, "workers": 1,
      "wait_wire": 1}, "attrs", 1),
    ({"msgs": ["v10", "get"], "cuts": ["boundaries"], "close": False, "lookahead": 2, "workers": 2,
      "wait_wire": 1}, "locks", 2),
    ({"msgs": ["close", "get"], "cuts": ["boundaries"], "close": False, "lookahead": 0, "workers": 1,
      "send_plan": [7, 0, 7, 0, 7, 0, 7, 0]}, "locks", 1),
    ({"msgs": ["v10", "get"], "cuts": ["boundaries"], "close": False, "lookahead": 1, "workers": 1,
      "send_plan": [40, 0, 1, 0, 40, 0]}, "attrs", 0),
    ({"msgs": ["get", "get"], "cuts": [], "close": False, "lookahead": 1, "workers": 1,
      "maint": True, "channel_timeout": -1000}, "locks", 1),
    # send_continue's flush fails (48f7fa0: will_close through _flush_exception): at the tail of
    # service() on the worker, and inside received() on the I/O thread with a request behind it
    ({"msgs": ["get", "exphead", "body3", "get"], "cuts": [], "close": False, "lookahead": 0, "workers": 1,
      "send_plan": [None, None, ["err", 113]]}, "attrs", 0),
    ({"msgs": ["exphead", "body3", "get"], "cuts": [], "close": False, "lookahead": 1, "workers": 1,
      "send_plan": [["err", 113]]}, "locks", 1),
    ({"msgs": ["get", "get"], "cuts": ["boundaries"], "close": False, "lookahead": 1, "workers": 1,
      "shutdown": 1, "shutdown_timeout": 0.05}, "locks", 1),
]


def _H():
    from harness import chanclose
    return chanclose


def run_one(sc, schedule=(), policy=None, granularity="locks"):
    H = _H()
    w = H.build_world(sc, schedule=schedule, policy=policy, granularity=granularity)
    verdict = w.run()
    return w, verdict


def run(ctx):
    H = _H()
    ctx.gate()
    props_ok, failing, log = ctx.props()
    ctx.build(["Model/ChanClose.vo"])
    runner = ctx.runner("chanclose", "ExtChanclose.v")
    if runner is None:
        ctx.oblige("extracted model runner builds", False, "see notes")
        return
    rng = ctx.rng
    thorough = ctx.tier == "thorough"
    t0 = time.time()

    # ---- (b) shape audit --------------------------------------------------------------
    bad_shapes = H.shape_audit()
    ctx.oblige("K-shape: lock scopes, flag reads/writes, add_task/handle_close calls of the %d modelled methods "
               "are what Model/ChanClose.v transliterates" % len(H.SIGNATURE), not bad_shapes,
               "; ".join("%s: expected [%s] found [%s]" % b for b in bad_shapes)[:1500])

    # ---- the model's own explorer: candidate invariants + both monitors, small instance ----
    ex = runner.query(["explore 0 2 2 %d" % (3000000 if thorough else 400000),
                       "explore 1 2 %d %d" % ((3, 3000000) if thorough else (2, 400000))])
    ex_ok = all((" inv=ok " in e and e.endswith("partial=ok") and " full=ok" in e) for e in ex)
    ctx.oblige("model explorer (extracted): invariants hold and the monitor (all decision kinds) never fails "
               "on the bounded instances", ex_ok, " | ".join(x[:300] for x in ex))

    # ---- (a)+(c) real traces -----------------------------------------------------------
    stats = {"runs": 0, "validated_traces": 0, "validated_steps": 0, "overrun": 0, "blocked": 0, "finished": 0}
    decisions = {}
    tokens = {}
    policies = {}
    nontrivial = set()
    samples = []
    conf_ok = [True]
    mon_ok = [True]
    msg_kinds = {}

    oracle_due = {}

    def account(sc, w, verdict, pk, gran):
        stats["runs"] += 1
        stats[verdict] = stats.get(verdict, 0) + 1
        policies[pk + "/" + gran] = policies.get(pk + "/" + gran, 0) + 1
        labs = H.labels_of(w.sched.events, oracle=True)
        for l in labs:
            if l.startswith("dec:"):
                decisions[l[4:]] = decisions.get(l[4:], 0) + 1
        for why in H.oracle_points(w.sched.events).values():
            why = why.split(",")[0][:48]
            oracle_due[why] = oracle_due.get(why, 0) + 1
        if any(l.startswith("dec:") for l in labs) and any(l.startswith("start:") for l in labs):
            nontrivial.add(hashlib.sha1((json.dumps(sc, sort_keys=True) + "|" + ",".join(labs)).encode()).hexdigest())
        return labs

    def check_monitor(sc, w, labs, pk, gran):
        okp, infop = H.py_monitor(labs, H.COVERED)
        okf, inff = H.py_monitor(labs, H.COVERED | H.UNCOVERED)
        rep = {"kind": "monitor", "scenario": sc, "choices": list(w.sched.choices), "granularity": gran,
               "expected": "no app_call in a service() entered after a close decision",
               "failing_input_found": True}
        if not okp:
            mon_ok[0] = False
            rep["observed"] = infop
            what = "application called by a service() entered after close decision(s) %s" % infop["decisions_before_start"]
            if set(infop["decisions_before_start"]) == {"oracle_undelimited"}:
                what = ("application called by a service() entered after a response that was not delimited as announced "
                        "(wire oracle: %s) and NO close decision was taken" % sorted(set(H.oracle_points(w.sched.events).values())))
            ctx.report("monitor:" + ",".join(sorted(set(infop["decisions_before_start"]))), what, rep)
        return okp, okf

    def check_extracted_monitor(all_labs):
        """the extracted monitor must agree with the Python one"""
        lines = []
        for labs in all_labs:
            # the oracle's decision label is a decision like any other for the monitor; the driver's
            # label syntax only knows the model's kinds
            ls = " ".join("dec:worker_close" if l == "dec:oracle_undelimited" else l for l in labs) if labs else ""
            lines.append("monitor partial " + ls)
            lines.append("monitor full " + ls)
        ans = runner.query(lines)
        bad = 0
        for k, labs in enumerate(all_labs):
            okp, _ = H.py_monitor(labs, H.COVERED)
            okf, _ = H.py_monitor(labs, H.COVERED | H.UNCOVERED)
            if ans[2 * k] != ("1" if okp else "0") or ans[2 * k + 1] != ("1" if okf else "0"):
                bad += 1
        return bad

    errno_ok = [True]
    errno_seen = {}

    def check_errno(sc, w, gran):
        for (t, k, d) in w.sched.events:
            if k in ("send_err", "recv_err"):
                cls = "wouldblock" if d in H.WOULDBLOCK else ("silent_disconnect" if d in H.EXPECTED_DISCONNECTED else "other")
                key = "%s/%s/%s" % (k[:4], "io" if t == "io" else "worker", cls)
                errno_seen[key] = errno_seen.get(key, 0) + 1
                errno_names.add(d)
        probs = H.errno_conformance(w.sched.events)
        if probs:
            errno_ok[0] = False
            p = probs[0]
            labs = H.labels_of(w.sched.events, oracle=True)
            ctx.report("errno:%s:%s:%s" % (p["call"], "io" if p["thread"] == "io" else "worker", p["errno_name"]),
                       "%s failing with %s on %s: expected close decision(s) %s, observed %s" % (
                           p["call"], p["errno_name"], p["thread"], p["expected_decisions"], p["observed_decisions"]),
                       {"kind": "errno", "scenario": sc, "choices": list(w.sched.choices), "granularity": gran,
                        "errno": p["errno"], "errno_name": p["errno_name"], "thread": p["thread"],
                        "expected": "decision(s) %s right after the failing %s" % (p["expected_decisions"], p["call"]),
                        "observed": {"decisions": p["observed_decisions"], "labels": labs[:30],
                                     "application_calls": sum(1 for l in labs if l.startswith("app:"))},
                        "failing_input_found": True})

    errno_names = set()

    def validate(sc, w, pk):
        try:
            steps = H.abstract(w)
            ok, det, k = H.validate(runner, sc.get("lookahead", 0), steps)
        except H.MapError as e:
            ok, det, k, steps = False, {"problem": "unmodelled operation", "detail": str(e)}, 0, []
        stats["validated_steps"] += k
        for s in steps[:k]:
            t = s["tok"]
            t = "w" + t[t.index(":"):] if (t[0] == "w" and ":" in t) else ("w" if t[0] == "w" else t)
            if t.startswith("io:data:"):
                t = "io:data"
            elif t.startswith("io:len"):
                t = "io:len"
            tokens[t] = tokens.get(t, 0) + 1
        if ok:
            stats["validated_traces"] += 1
        else:
            conf_ok[0] = False
            ctx.report("conformance:" + str(det.get("problem")),
                       "real trace not reproduced by the model: %s" % det.get("problem"),
                       {"kind": "conformance", "scenario": sc, "choices": list(w.sched.choices),
                        "granularity": "attrs", "expected": "every observed operation is a step of Model/ChanClose.v "
                        "leading to the same abstract state and labels", "observed": det, "failing_input_found": True})
        return ok

    collected_labels = []

    # 1. the directed reproduction of F22 (default schedule) and of its I/O-side variant (explored)
    w, v = run_one(F22_SCENARIO, granularity="attrs")
    labs = account(F22_SCENARIO, w, v, "default", "attrs")
    okp, okf = check_monitor(F22_SCENARIO, w, labs, "default", "attrs")
    validate(F22_SCENARIO, w, "default")
    f22 = not okp
    collected_labels.append(labs)
    samples.append({"scenario": F22_SCENARIO, "policy": "default", "labels": labs[:14], "f22_reproduced": f22})

    f22_io = [False]

    def explore_case(sc, maxpre, limit, gran="locks"):
        sc = dict(sc)
        sc.setdefault("max_steps", 500)

        def run_case(prefix):
            w, v = run_one(sc, schedule=prefix, granularity=gran)
            labs = account(sc, w, v, "explore", gran)
            okp, okf = check_monitor(sc, w, labs, "explore", gran)
            check_errno(sc, w, gran)
            if not okp:
                _, inf = H.py_monitor(labs, H.COVERED)
                if "flush_err_io" in inf["decisions_before_start"]:
                    f22_io[0] = True
            return w.sched
        return H.explore(run_case, maxpre, limit=limit)

    r = explore_case(F22_IO_SCENARIO, 2, 2500 if thorough else 300)
    samples.append({"scenario": F22_IO_SCENARIO, "policy": "explore<=2 preemptions", "runs": r["runs"],
                    "per_level": r["per_preemption_level"], "f22_io_reproduced": f22_io[0]})
    for sc, gran, maxpre in TINY:
        r = explore_case(sc, maxpre + (1 if thorough else 0), 2500 if thorough else (450 if gran == "attrs" else 250), gran)
        samples.append({"scenario": sc, "policy": "explore<=%d preemptions/%s" % (maxpre + (1 if thorough else 0), gran),
                        "runs": r["runs"], "per_level": r["per_preemption_level"], "truncated": r["truncated"]})

    # 1b. every class of socket error at every call site, directed: the seven network errnos, every
    # member of the CURRENT wasyncore._DISCONNECTED and of the expected set, EWOULDBLOCK and a few others
    try:
        from waitress import wasyncore as _wa
        cur_disc = set(_wa._DISCONNECTED)
    except Exception:
        cur_disc = set()
    directed_errnos = sorted(set(H.NETWORK_ERRNOS) | cur_disc | set(H.EXPECTED_DISCONNECTED) |
                             {errno.EWOULDBLOCK, errno.EIO, errno.ENOBUFS, errno.EINTR, errno.EMSGSIZE})
    for e in directed_errnos:
        for sc in (
            {"msgs": ["get", "get"], "cuts": [], "lookahead": 0, "workers": 1, "send_plan": [["err", e]]},       # worker flush
            {"msgs": ["get", "exphead", "body3", "get"], "cuts": [], "lookahead": 0, "workers": 1,
             "send_plan": [None, None, ["err", e]]},                                                         # worker send_continue
            {"msgs": ["exphead", "body3", "get"], "cuts": [], "lookahead": 1, "workers": 1, "send_plan": [["err", e]]},  # I/O send_continue
            {"msgs": ["get", "get"], "cuts": ["boundaries"], "lookahead": 1, "workers": 1, "recv_faults": {"1": e}},   # recv
            {"msgs": ["close", "get"], "cuts": [], "lookahead": 0, "workers": 1, "send_plan": [0, 0, ["err", e]]},  # I/O handle_write
        ):
            w, v = run_one(sc, granularity="locks")
            labs = account(sc, w, v, "default", "locks")
            check_monitor(sc, w, labs, "default", "locks")
            check_errno(sc, w, "locks")

    # 1c. the task's verdict: every way the application fails x log_socket_errors x where the next request is
    for kind in H.FAILING_KINDS:
        for lse in (True, False):
            for follow in ({"cuts": []}, {"cuts": ["boundaries"], "wait_wire": 1, "lookahead": 1}):
                sc = {"msgs": [kind, "get"], "lookahead": 0, "workers": 1,
                      "adj": {"log_socket_errors": lse, "expose_tracebacks": kind == "ose_pre" and not lse}}
                sc.update(follow)
                w, v = run_one(sc, granularity="locks")
                labs = account(sc, w, v, "default", "locks")
                check_monitor(sc, w, labs, "default", "locks")
                check_errno(sc, w, "locks")

    # 2. K-chan + monitor on generated scenarios, attribute granularity
    n_attr = 3500 if thorough else 430
    for n in range(n_attr):
        r = rng.random()
        sc = H.gen_race_scenario(rng) if r < 0.3 else (H.gen_appfail_scenario(rng) if r < 0.5 else H.gen_scenario(rng))
        for k in sc["msgs"]:
            msg_kinds[k] = msg_kinds.get(k, 0) + 1
        pk = rng.choice(["default", "random", "random", "pct1", "pct2", "pct3"])
        w, v = run_one(sc, policy=H.make_policy(rng, pk), granularity="attrs")
        labs = account(sc, w, v, pk, "attrs")
        check_monitor(sc, w, labs, pk, "attrs")
        check_errno(sc, w, "attrs")
        validate(sc, w, pk)
        if n % 20 == 0:
            collected_labels.append(labs)
        if len(samples) < 12 and n % 97 == 0:
            samples.append({"scenario": sc, "policy": pk, "labels": labs[:14], "verdict": v})

    # 3. monitor on generated scenarios, lock granularity (coarser steps, more schedules)
    n_lock = 7000 if thorough else 600
    for n in range(n_lock):
        r = rng.random()
        sc = H.gen_race_scenario(rng) if r < 0.3 else (H.gen_appfail_scenario(rng) if r < 0.5 else H.gen_scenario(rng))
        pk = rng.choice(["random", "random", "pct1", "pct2", "pct3"])
        w, v = run_one(sc, policy=H.make_policy(rng, pk, est=60), granularity="locks")
        labs = account(sc, w, v, pk, "locks")
        check_monitor(sc, w, labs, pk, "locks")
        check_errno(sc, w, "locks")
        if n % 40 == 0:
            collected_labels.append(labs)

    bad_ext = check_extracted_monitor(collected_labels)

    ctx.oblige("K-chan: every real trace (attribute granularity) is a run of the extracted model with the same "
               "abstract state and labels after every step", conf_ok[0] and stats["validated_traces"] > 0,
               "validated %d traces, %d steps" % (stats["validated_traces"], stats["validated_steps"]))
    ctx.oblige("monitor (every kind of close decision) accepts every real trace", mon_ok[0])
    ctx.oblige("K-errno: every injected socket error (%d distinct errnos; send/recv, I/O thread/worker) is followed by exactly "
               "the close decision its class prescribes (will_close / handle_close / none)" % len(errno_names),
               errno_ok[0] and len(errno_names) > 0, json.dumps(errno_seen, sort_keys=True))
    ctx.oblige("extracted monitor agrees with the harness monitor on %d real traces" % len(collected_labels),
               bad_ext == 0, "%d disagreements" % bad_ext)

    if not props_ok and not ctx.violations:
        ctx.report("c11-proof-broken", "Props/C11.v no longer checks (%s); no real trace violating the monitor was found"
                   % failing, {"failing_input_found": False, "broken": "Props/C11.v via %s" % failing,
                               "log_tail": (log or "")[-1500:]})
    if bad_shapes and not any(v["kf_class"] is None for v in ctx.violations):
        ctx.report("c11-shape", "the modelled methods no longer have the shape Model/ChanClose.v transliterates; "
                   "no schedule exhibiting a difference was found",
                   {"failing_input_found": False, "broken": [{"method": q, "expected": a, "found": b} for q, a, b in bad_shapes]})

    ctx.coverage.update({
        "evaluations": stats["runs"],
        "distinct_nontrivial": len(nontrivial),
        "rule": "one evaluation = one run of the real channel world to quiescence under one schedule; non-trivial = "
                "distinct (scenario, label trace) containing at least one close decision and one service_start",
        "samples": samples,
        "traces_validated_against_impl": stats["validated_traces"],
        "model_steps_validated": stats["validated_steps"],
        "scheduler_verdicts": {k: stats.get(k, 0) for k in ("blocked", "finished", "overrun")},
        "policy_distribution": policies,
        "decision_kinds_observed": decisions,
        "model_choice_kinds_exercised": tokens,
        "message_kinds": msg_kinds,
        "wire_oracle_close_due": oracle_due,
        "socket_errors_injected_by_call_thread_class": errno_seen,
        "distinct_errnos_injected": len(errno_names),
        "errnos_injected": sorted(H.errno_name(e) for e in errno_names),
        "f22_scenario_still_violates": f22,
        "f22_io_variant_still_violates": f22_io[0],
        "model_explorer": ex,
        "shape_audit_methods": len(H.SIGNATURE),
        "search_wall_s": round(time.time() - t0, 1),
    })


def replay(data):
    H = _H()
    sc = data["scenario"]
    gran = data.get("granularity", "locks")
    w, v = run_one(sc, schedule=data.get("choices", ()), granularity=gran)
    labs = H.labels_of(w.sched.events, oracle=True)
    if data.get("kind") == "conformance":
        path, log = vcommon.build_runner("chanclose", "ExtChanclose.v")
        if path is None:
            print("runner does not build")
            return 1
        runner = vcommon.Runner(path)
        try:
            steps = H.abstract(w)
            ok, det, k = H.validate(runner, sc.get("lookahead", 0), steps)
        except H.MapError as e:
            ok, det = False, {"problem": "unmodelled operation", "detail": str(e)}
        print("scenario=%s verdict=%s conformance=%s %s" % (json.dumps(sc), v, ok, det or ""))
        return 0 if ok else 1
    okp, infop = H.py_monitor(labs, H.COVERED)
    print("scenario=%s verdict=%s" % (json.dumps(sc), v))
    if data.get("kind") == "errno":
        probs = H.errno_conformance(w.sched.events)
        print("labels=%s" % " ".join(labs))
        print("socket errors not followed by the prescribed decision: %s" % (probs or "none"))
        return 1 if probs or not okp else 0
    print("labels=%s" % " ".join(labs))
    print("monitor(all close decisions)=%s %s" % (okp, infop or ""))
    return 0 if okp else 1
