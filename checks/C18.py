"""C18 -- connection limit holds; idle connections are reaped, busy ones never.

Decided by: inductive theorems in Coq over all event histories and all
parameter values about the model coq/Model/Server.v (Props/C18.v), whose
boolean decisions are regenerated from the source on this run (Gen/GenPreds.v).
Tied to the code by
 (a) K-preds: every generated predicate evaluated by the extracted model against
     the REAL method on objects put in every combination of the fields it reads;
 (b) K-srv: the real create_server / TcpWSGIServer / HTTPChannel / wasyncore.loop
     / trigger driven over a fake kernel and a fake clock on seeded event
     histories, compared with the extracted model after every event;
 (b') the loop bodies: wasyncore.poll, poll2 and readwrite translated too (event mask
     registered per object, dispatch per returned flag), proved to dispatch
     handle_read_event only to objects whose readable() was true at scan time
     (Props/C18.v, C18_loop_*), tied by K-preds on the real functions over a fake
     select / select.poll, by a third of the histories running under poll2, and by
     the loop-level statement evaluated on the real functions for every scan outcome
     and every admissible kernel answer;
 (c) search: the property's monitors (limit, admission, never-busy, reaping
     deadline) evaluated directly on the real trace.
Known finding F21 (kf_c18_stalled_peer): a marked connection whose socket is
not writable (peer stalled with a full send buffer) is never closed."""
import collections
import itertools
import logging
import os
import random

from lib import vcommon

LEVEL = "proof"
ASSUMPTIONS = [
    "time is an integer-valued clock read through time.time(); the real float arithmetic (now + cleanup_interval, now - channel_timeout) is represented by Z",
    "the fake kernel (harness/fake_socket.py, same semantics as the sock record of Model/Server.v) stands for the real one: select reports read-ready iff data is queued or the peer has gone, write-ready iff the peer has gone, reads, or the send buffer has room; send to a gone peer raises EPIPE",
    "one poll turn is atomic with respect to the application: worker threads are represented by the atomic event 'application finishes requests[0]' (real channel.service() run synchronously); outputs stay below outbuf_high_watermark; a client write fits into one recv()",
    "listeners and triggers are never closed (accept and getsockopt on the fake sockets do not fail); no Expect: 100-continue requests (C19)",
    "the loop period P and writability when polled are environment inputs: explicit hypotheses of the reaping theorems",
]

KF = "kf_c18_stalled_peer"


def _batched_query(runner, histories):
    """histories: list of command lists (each starting with init).  One process per batch."""
    flat = [c for h in histories for c in h]
    out = runner.query(flat)
    res = []
    i = 0
    for h in histories:
        res.append(out[i:i + len(h)])
        i += len(h)
    return res


def exhaustive_histories(maxlen):
    from harness import server as H
    cfg = H.Config(listeners=1, limit=3, timeout=2, interval=1, send_bytes=1, lookahead=0, sndbuf=50, t0=1000)
    alpha = [("connect", 0), ("poll",), ("send", H.FD0, "k"), ("send", H.FD0, "c"), ("app", H.FD0, 200),
             ("adv", 3), ("stalls", H.FD0), ("disc", H.FD0)]
    for n in range(1, maxlen + 1):
        for seq in itertools.product(alpha, repeat=n):
            if seq[0] != ("connect", 0) or ("poll",) not in seq:
                continue
            yield cfg, list(seq)


def shrink(H, cfg, events, key):
    """Greedy removal of events while the monitor `key` still fires (non-known-finding)."""
    def fails(evs):
        try:
            _, _, _, obs = H.run_history(cfg, random.Random(0), 0, scripted=evs)
        except Exception:
            return False
        return any(k == key and kf is None for k, _, kf in H.monitor(cfg, obs))
    cur = list(events)
    changed = True
    rounds = 0
    while changed and rounds < 4:
        changed = False
        rounds += 1
        i = len(cur) - 1
        while i >= 0:
            cand = cur[:i] + cur[i + 1:]
            if cand and fails(cand):
                cur = cand
                changed = True
            i -= 1
    return cur


def run(ctx):
    from harness import server as H

    logging.getLogger("waitress").setLevel(logging.CRITICAL + 1)
    ctx.translate({"GenPreds"})
    ctx.gate()
    props_ok, failing, log = ctx.props()
    ctx.build(["Model/Server.vo"])
    runner = ctx.runner("server", "ExtServer.v")
    if runner is None:
        ctx.oblige("extracted server runner builds", False, "see notes")
        runner_ok = False
    else:
        runner_ok = True
    rng = ctx.rng
    evaluations = 0
    nontrivial = set()
    samples = []
    dist = collections.Counter()

    # ---- (a) K-preds
    preds_ok = runner_ok
    pred_mismatch = None
    if runner_ok:
        cases = H.pred_cases()
        got = runner.query([c for c, _ in cases])
        for (c, want), g in zip(cases, got):
            evaluations += 1
            nontrivial.add(("pred", c))
            if g != want:
                preds_ok = False
                if pred_mismatch is None:
                    pred_mismatch = {"query": c, "real_method": want, "generated": g}
        dist["predicate_cases"] = len(cases)
    ctx.oblige("K-preds: generated predicates agree with the real readable/writable/handle_write/maintenance/poll on every field combination",
               preds_ok, "" if preds_ok else repr(pred_mismatch))

    # ---- loop-level statement (C18_loop_read_only_if_readable / _write_only_if_writable) on the real
    #      wasyncore.poll / poll2 / readwrite: every scan outcome x every admissible kernel answer
    loop_turns, loop_bad = H.loop_search()
    evaluations += loop_turns
    dist["loop_turns_select_and_poll"] = loop_turns
    ctx.oblige("loop: real poll/poll2 dispatch handle_read_event only to objects whose readable() was true at scan time, handle_write_event only if writable()",
               not loop_bad, "" if not loop_bad else "%d violating turns, first: %r" % (len(loop_bad), loop_bad[0]["what"]))
    seen_loop = set()
    for v in loop_bad:
        key = "loop:%s:%s" % (v["loop"], v["what"][:30])
        if key in seen_loop:
            continue
        seen_loop.add(key)
        ctx.report(key, "%s: %s (readable()=%s writable()=%s accepting=%s, kernel answer %r)" % (
            v["loop"], v["what"], v["readable"], v["writable"], v["accepting"], v["kernel_answer"]),
            dict(v, expected="handler dispatched only if the predicate was true at scan time", observed=v["what"]))

    # ---- teardown from inside received() (Expect: 100-continue + client reset): the loop must go on
    probe_bad = []
    for up in (False, True):
        for text in H.teardown_probe(use_poll=up):
            probe_bad.append(("poll2" if up else "select", text))
    evaluations += 2
    ctx.oblige("teardown probe: a connection closed from inside received() leaves the I/O loop running (accept, maintenance)",
               not probe_bad, "" if not probe_bad else "%s: %s" % probe_bad[0])
    if probe_bad:
        ctx.report("teardown-probe", "teardown from inside received(): " + "; ".join(t_ for _, t_ in probe_bad[:3]),
                   {"probe": "teardown", "loop": None, "history": "connect; poll; client sends a head with Expect: 100-continue (Content-Length 5) and resets; poll; connect; adv 3; poll",
                    "wire_hex": H.EXPECT_HEAD.hex(), "expected": "channel closed, loop keeps accepting and running maintenance",
                    "observed": [t_ for _, t_ in probe_bad], "failing_input_found": True})

    # ---- (b) K-srv + (c) monitors
    nh = 1200 if ctx.tier == "quick" else 25000
    hist_len = 60 if ctx.tier == "quick" else 80
    srv_ok = runner_ok
    first_mismatch = None
    monitor_hits = []      # (cfg, events, key, text, kf)
    f21_seen = 0
    reached_bound = 0

    def process(batch):
        nonlocal evaluations, srv_ok, first_mismatch, reached_bound, f21_seen
        model = _batched_query(runner, [b[1] for b in batch]) if runner_ok else [None] * len(batch)
        for (cfg, cmds, dumps, events, obs), mdumps in zip(batch, model):
            if mdumps is not None:
                for j, (a, b) in enumerate(zip(dumps, mdumps)):
                    if a != b:
                        srv_ok = False
                        if first_mismatch is None or len(events[:j]) < len(first_mismatch["events"]):
                            first_mismatch = {"config": cfg.as_dict(), "events": [list(e) for e in events[:j]],
                                              "step": j, "command": cmds[j], "implementation": a, "model": b}
                        break
            prev = dumps[0]
            for j, ev in enumerate(events):
                evaluations += 1
                dist["ev_" + ev[0]] += 1
                if dumps[j + 1] != prev:
                    nontrivial.add(H.case_hash(cfg, [prev, cmds[j + 1]]))
                prev = dumps[j + 1]
            bnd = H.bound(cfg)
            if any(a["len"] == bnd and a["len"] > 2 * cfg.listeners for _, _, a in obs):
                reached_bound += 1
            for ev, b, a in obs:
                if ev[0] == "poll":
                    new = [fd for fd in a["chans"] if fd not in b["chans"]]
                    gone = [fd for fd in b["chans"] if fd not in a["chans"]]
                    dist["accepted"] += len(new)
                    dist["closed"] += len(gone)
                    dist["closed_marked"] += sum(1 for fd in gone if b["chans"][fd]["nreq"] == 0 and b["chans"][fd]["la"] + cfg.timeout < b["now"])
                    if b["len"] >= cfg.limit:
                        dist["polls_at_limit"] += 1
                    if any(x["ovf"] for x in a["listeners"]):
                        dist["polls_in_overflow"] += 1
                    if any(x["ncc"] != y["ncc"] for x, y in zip(a["listeners"], b["listeners"])):
                        dist["polls_with_maintenance"] += 1
            for key, text, kf in H.monitor(cfg, obs):
                if kf == KF:
                    f21_seen += 1
                monitor_hits.append((cfg, events, key, text, kf))

    batch = []
    for i in range(nh):
        cfg = H.gen_config(rng, ctx.tier, i)
        cmds, dumps, events, obs = H.run_history(cfg, rng, hist_len)
        batch.append((cfg, cmds, dumps, events, obs))
        dist["cfg_listeners_%d" % cfg.listeners] += 1
        dist["cfg_loop_%s" % ("poll2" if cfg.use_poll else "select")] += 1
        dist["cfg_limit_%s" % ("default" if cfg.limit == 100 else "small")] += 1
        if len(samples) < 3:
            samples.append({"config": cfg.as_dict(), "commands": cmds[1:13]})
        if len(batch) >= 1000:
            process(batch)
            batch = []
    # scripted scenarios
    scripted = [H.scenario_f21(), H.scenario_limit_two_listeners(5), H.scenario_limit_two_listeners(8)]
    for cfg0, evs0 in list(scripted):
        d = cfg0.as_dict()
        d["use_poll"] = True
        scripted.append((H.Config(**d), evs0))
    for cfg, evs in scripted:
        cmds, dumps, events, obs = H.run_history(cfg, rng, 0, scripted=evs)
        batch.append((cfg, cmds, dumps, events, obs))
    # small-scope exhaustive stream
    maxlen = 4 if ctx.tier == "quick" else 6
    nex = 0
    for cfg, evs in exhaustive_histories(maxlen):
        cmds, dumps, events, obs = H.run_history(cfg, rng, 0, scripted=evs)
        batch.append((cfg, cmds, dumps, events, obs))
        nex += 1
        if len(batch) >= 2000:
            process(batch)
            batch = []
    if batch:
        process(batch)
    dist["exhaustive_histories"] = nex
    dist["random_histories"] = nh
    dist["histories_reaching_the_bound"] = reached_bound
    dist["known_finding_observations"] = f21_seen

    ctx.oblige("K-srv: real server/channel/poll agree with the extracted model after every event of every history",
               srv_ok, "" if srv_ok else ("first disagreement at step %d" % first_mismatch["step"] if first_mismatch
                                          else "the extracted model is not available"))

    # monitors: genuine violations and the known finding
    bad = [m for m in monitor_hits if m[4] is None]
    ctx.oblige("monitors: limit, admission, never-busy and reaping deadline hold on every real trace (outside open known-finding classes)",
               not bad, "" if not bad else "%d monitor hits, first: %s" % (len(bad), bad[0][3]))
    seen_keys = set()
    for cfg, events, key, text, kf in monitor_hits:
        if kf is not None:
            if kf in seen_keys:
                continue
            seen_keys.add(kf)
            ctx.report("kf:" + kf, text, {"config": cfg.as_dict(), "events": [list(e) for e in events],
                                           "monitor": key, "failing_input_found": True}, kf_class=kf)
            continue
        if key in seen_keys:
            continue
        seen_keys.add(key)
        small = shrink(H, cfg, events, key)
        _, _, _, obs = H.run_history(cfg, random.Random(0), 0, scripted=small)
        texts = [t for k, t, f in H.monitor(cfg, obs) if k == key and f is None]
        ctx.report("monitor:" + key, "%s: %s" % (key, texts[0] if texts else text),
                   {"config": cfg.as_dict(), "events": [list(e) for e in small], "monitor": key,
                    "expected": "no '%s' monitor hit" % key, "observed": texts[0] if texts else text,
                    "failing_input_found": True})

    # the stored witness of the known finding must still reproduce (note only)
    kfs = {k.get("class") for k in vcommon.known_findings("C18")}
    if KF in kfs and f21_seen == 0:
        ctx.notes.append("known finding %s no longer reproduces on the scripted F21 history" % KF)

    # broken tie / proof without a monitor hit: name what no longer checks
    if not bad and not loop_bad and not probe_bad:
        if not srv_ok and first_mismatch is not None:
            ctx.report("k-srv-mismatch", "model and implementation disagree (no property monitor fired)",
                       dict(first_mismatch, failing_input_found=False, broken="K-srv correspondence"))
        elif not preds_ok:
            ctx.report("k-preds-mismatch", "generated predicate differs from the real method",
                       {"failing_input_found": False, "broken": "K-preds", "case": pred_mismatch})
        elif not props_ok or not runner_ok:
            ctx.report("c18-proof-broken", "Props/C18.v no longer checks (%s)" % failing,
                       {"failing_input_found": False, "broken": "Props/C18.v via %s" % failing,
                        "log_tail": (log or "")[-1500:]})

    ctx.coverage.update({
        "evaluations": evaluations,
        "distinct_nontrivial": len(nontrivial),
        "rule": "%d seeded histories of %d events (connect / send partial|complete|close / app-finishes / client-reads / client-stalls / disconnect / clock-advance / poll) over 1..2 listeners x connection_limit in {1..8, 100} x channel_timeout, cleanup_interval, send_bytes, lookahead, send-buffer room; all histories up to length %d over an 8-event alphabet for one listener; %d predicate field combinations; non-trivial = distinct (config, state, event) transitions that changed the state" % (nh, hist_len, maxlen, dist["predicate_cases"]),
        "samples": samples,
        "distribution": dict(sorted(dist.items())),
        "traces_validated_against_impl": nh + nex + len(scripted),
    })


def replay(data):
    from harness import server as H

    logging.getLogger("waitress").setLevel(logging.CRITICAL + 1)
    if data.get("probe") == "teardown":
        bad = H.teardown_probe(False) + H.teardown_probe(True)
        for b in bad:
            print("PROBE", b)
        return 1 if bad else 0
    if "loop" in data:
        n, bad = H.loop_search()
        mine = [v for v in bad if v["loop"] == data["loop"] and v["what"] == data["what"]
                and (v["readable"], v["writable"], v["accepting"]) == (data["readable"], data["writable"], data["accepting"])]
        for v in mine[:3]:
            print("LOOP", v)
        print("%d turns run, %d violations, %d of the recorded kind" % (n, len(bad), len(mine)))
        return 1 if mine else 0
    cfg = H.Config(**data["config"])
    events = [tuple(e) for e in data["events"]]
    cmds, dumps, evs, obs = H.run_history(cfg, random.Random(0), 0, scripted=events)
    hits = H.monitor(cfg, obs)
    key = data.get("monitor")
    mine = [h for h in hits if key is None or h[0] == key]
    for c, d in zip(cmds, dumps):
        print(c, "->", d)
    for h in mine:
        print("MONITOR", h)
    if data.get("model") is not None:
        step = data["step"]
        now = dumps[step] if step < len(dumps) else None
        print("implementation now:", now)
        print("model             :", data["model"])
        return 0 if now == data["model"] else 1
    return 1 if mine else 0
