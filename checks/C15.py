"""C15 -- untrusted peers cannot influence connection metadata.

Decided by: Coq theorems (Props/C15.v) about the executable model of
proxy_headers.py and of the install condition in server.py (Model/Proxy.v):
a two-run non-interference statement for every environ, every value of the
six proxy headers and every configuration.  Tied to the code by K-proxy (the
real proxy_headers_middleware and the application as wrapped by the real
server constructor against the extracted model, whole environ compared), and
searched directly on the real code: two runs (with / without the headers)
through the middleware, through create_server's wrapper, and from raw request
bytes through the real parser and WSGITask.get_environment (underscore
aliases included).

End to end (appended): the theorems C15_e2e_* compose the C07 model of the
environ construction (Parser.v -> Environ.v) with the middleware model from
the request BYTES on.  K-e2e runs the extracted composition
(ocaml/c15e2e/runner) against the real HTTPRequestParser +
WSGITask.execute() (get_environment, then channel.server.application as the
real server constructor wrapped it) on the same bytes; S-e2e-bytes evaluates
the end-to-end statement on the real code for triples (request, request with
the proxy header lines deleted, request with those and every underscore-named
line deleted)."""
import hashlib

from harness import proxy as P

LEVEL = "proof"
ASSUMPTIONS = [
    "environ values are str (latin-1 decoded header text); non-str entries (wsgi.input ...) are never read or written by the middleware",
    "logging calls of the middleware are not modelled (no effect on the environ)",
    "the environ the middleware receives is the one built by task.get_environment: composed in Coq (C15_e2e_*) with the C07 model of parser + get_environment and tied end to end by K-e2e on request bytes; the C07 residue applies (urlsplit oracle; bodies enter the composition theorem as the hypothesis 'same framing verdict and decoded body')",
    "the caller's loop around parser.received (re-offering the unconsumed rest) is the harness's / the driver's, as in K-env",
]


def e2e_requests(rng, n):
    """raw requests with hostile proxy headers, dash and underscore spellings"""
    names = ["X-Forwarded-For", "X-Forwarded-Host", "X-Forwarded-Proto", "X-Forwarded-Port", "X-Forwarded-By", "Forwarded"]
    vals = ["6.6.6.6", "evil.example:1", "https", "1", "for=6.6.6.6;host=evil.example;proto=https", '"', ":80",
            "1.1.1.1, 2.2.2.2", "for=:80", 'for=" "', "ftp"]
    out = []
    for _ in range(n):
        lines = []
        for nm in names:
            r = rng.random()
            if r < 0.5:
                lines.append((nm, rng.choice(vals)))
            if rng.random() < 0.3:
                alias = nm.replace("-", "_") if rng.random() < 0.6 else nm.replace("-", "_", 1)
                lines.append((rng.choice([alias, alias.upper(), alias.lower()]), rng.choice(vals)))
            if rng.random() < 0.1:
                lines.append((nm.upper(), rng.choice(vals)))   # repeated header: values are joined
        rng.shuffle(lines)
        head = b"GET /p?q=1 HTTP/1.1\r\nHost: front.example\r\nUser-Agent: x\r\n"
        body = b"".join(("%s: %s\r\n" % (k, v)).encode("latin-1") for k, v in lines)
        out.append((head + body + b"\r\n", head + b"\r\n", lines))
    return out


E2E_CONFIGS = [
    {"clear_untrusted_proxy_headers": True},
    {"clear_untrusted_proxy_headers": False},
    {},
    {"trusted_proxy": P.OTHER, "trusted_proxy_headers": {"x-forwarded-for", "x-forwarded-host", "x-forwarded-proto"},
     "clear_untrusted_proxy_headers": True, "url_scheme": "https", "url_prefix": "/p"},
    {"trusted_proxy": P.OTHER, "trusted_proxy_headers": {"forwarded"}, "clear_untrusted_proxy_headers": False,
     "ident": "w/1.0", "server_name": "srv.example"},
    {"trusted_proxy": P.OTHER, "trusted_proxy_count": 2, "trusted_proxy_headers": {"x-forwarded-for", "x-forwarded-port", "x-forwarded-by"},
     "clear_untrusted_proxy_headers": True, "log_untrusted_proxy_headers": True},
    # the peer 10.9.8.7 IS the trusted proxy here: model-vs-real on the trusted path from bytes; the other peers stay untrusted
    {"trusted_proxy": P.PEER, "trusted_proxy_headers": {"x-forwarded-for", "x-forwarded-host", "x-forwarded-proto", "x-forwarded-port"},
     "clear_untrusted_proxy_headers": True},
    {"trusted_proxy": P.PEER, "trusted_proxy_headers": {"forwarded"}, "clear_untrusted_proxy_headers": False},
]


def _kw_json(kw):
    return {k: (sorted(v) if isinstance(v, (set, frozenset)) else v) for k, v in kw.items()}


def _kw_from_json(d):
    kw = dict(d)
    if "trusted_proxy_headers" in kw and kw["trusted_proxy_headers"] is not None:
        kw["trusted_proxy_headers"] = set(kw["trusted_proxy_headers"])
    return kw


def e2e_bytes(ctx, rng, quick, nontrivial):
    from lib.vcommon import hexb
    runner = ctx.runner("c15e2e", "ExtC15e2e.v")
    out = {"evaluations": 0, "coverage": {}, "samples": []}
    if runner is None:
        ctx.oblige("extracted end-to-end composition (ExtC15e2e.v) builds", False, "see notes")
        return out
    per = 110 if quick else 2500
    k_ok = s_ok = h_ok = True
    n_pairs = n_untrusted = n_trusted = n_rejected = 0
    status_dist = P.Counter()
    spell = P.Counter()
    body_dist = P.Counter()
    seg_dist = P.Counter()
    peer_dist = P.Counter()
    model_lines = 0
    for kw in E2E_CONFIGS:
        es = P.E2EServer(**kw)
        try:
            cases = []
            for raw_w, raw_wo in P.e2e_directed():
                # logical lines of a directed request (its one folded line joined as get_header_lines does)
                lines = [tuple(x.split(b":", 1)) for x in raw_w.split(b"\r\n\r\n")[0].replace(b"\r\n\t", b"\t").split(b"\r\n")[1:]]
                cases.append(({"with": [raw_w], "without": None, "without_all": None}, lines, b"", "directed", "none"))
            for _ in range(per):
                c = P.gen_e2e_case(rng)
                cases.append(({"with": P.e2e_split(rng, c["with"]), "without": P.e2e_split(rng, c["without"]),
                               "without_all": P.e2e_split(rng, c["without_all"])}, c["lines"], c["pad"], "generated", c["body_kind"]))
            # directed cases: derive the two deleted forms from the logical lines
            fixed = []
            for ch3, lines, pad, origin, bk in cases:
                if ch3["without"] is None:
                    head = ch3["with"][0].split(b"\r\n", 1)[0] + b"\r\n"
                    def rend(ls):
                        return head + b"".join(n + b":" + v + b"\r\n" for n, v in ls) + b"\r\n"
                    wo = [(n, v) for n, v in lines if not P.e2e_is_proxy_name(n)]
                    ch3 = {"with": ch3["with"], "without": [rend(wo)], "without_all": [rend([(n, v) for n, v in wo if b"_" not in n])]}
                fixed.append((ch3, lines, pad, origin, bk))
            cases = fixed
            addrs = [rng.choice(P.E2E_PEERS) for _ in cases]
            cmds = []
            for (ch3, lines, pad, origin, bk), addr in zip(cases, addrs):
                for w in ("with", "without", "without_all"):
                    cmds.append(P.e2e_model_cmd(es, addr, ch3[w]))
                cmds.append("parts " + " ".join(hexb(c) for c in ch3["with"]))
                cmds.append("parts " + " ".join(hexb(c) for c in ch3["without"]))
                cmds.append("parts " + " ".join(hexb(c) for c in ch3["without_all"]))
            answers = runner.query(cmds)
            model_lines += len(cmds)
            # second round: kept_lines / value_of_lines on the lines the model itself read off the bytes
            cmds2 = []
            idx2 = []
            for i, ((ch3, lines, pad, origin, bk), addr) in enumerate(zip(cases, addrs)):
                pw, pwo, pwa = (answers[6 * i + 3 + j].split(" ") for j in range(3))
                if pw[0] != "parts" or pwo[0] != "parts" or pwa[0] != "parts":
                    continue
                idx2.append(i)
                cmds2.append("kept " + " ".join(pw[2:]))
                cmds2.append("kept " + " ".join(pwo[2:]))
                cmds2.append("kept " + " ".join(pwa[2:]))
                for key in ["HTTP_HOST"] + P.PROXY_KEYS:
                    cmds2.append("kv %s %s" % (hexb(key.encode()), " ".join(pw[2:])))
            answers2 = runner.query(cmds2)
            model_lines += len(cmds2)
            a2 = {i: answers2[10 * j:10 * j + 10] for j, i in enumerate(idx2)}
            for i, ((ch3, lines, pad, origin, bk), addr) in enumerate(zip(cases, addrs)):
                n_pairs += 1
                out["evaluations"] += 6
                untrusted = P.e2e_is_untrusted(es, addr)
                fails, reals = P.e2e_eval_real(es, addr, ch3, lines)
                status_dist[reals["with"][0]] += 1
                peer_dist["%s:%s" % (addr[0], "untrusted" if untrusted else "TRUSTED")] += 1
                seg_dist[len(ch3["with"])] += 1
                body_dist[bk] += 1
                nd = sum(1 for n, _ in lines if P.e2e_is_proxy_name(n))
                nu = sum(1 for n, _ in lines if b"_" in n)
                spell["dash-spelled proxy lines"] += nd
                spell["underscore-named lines"] += nu
                spell["blank-valued proxy lines"] += sum(1 for n, v in lines if P.e2e_is_proxy_name(n) and not v.strip(b" \t"))
                if reals["with"][0] != "ok":
                    n_rejected += 1
                elif untrusted:
                    n_untrusted += 1
                else:
                    n_trusted += 1
                if reals["with"][0] == "ok" and (nd or nu):
                    nontrivial.add("e2eb" + hashlib.sha1(b"|".join(ch3["with"]) + repr((sorted(_kw_json(kw).items()), addr)).encode()).hexdigest())
                base = {"kind": "e2e-bytes", "server_kw": _kw_json(kw), "addr": list(addr),
                        "chunks_hex": {w: [c.hex() for c in ch3[w]] for w in ch3},
                        "lines_hex": [[n.hex(), v.hex()] for n, v in lines],
                        "request": repr(b"".join(ch3["with"]))[:600], "peer_is_trusted_proxy": not untrusted}
                if fails:
                    s_ok = False
                    d = dict(base)
                    d.update({"check": "statement", "expected": "metadata fixed by the connection/server context and the Host line; no influence of the proxy header lines or of underscore-named lines; none of the six reaches the application when clearing is on",
                              "observed": fails[:5], "failing_input_found": True})
                    ctx.report("e2e-bytes:" + fails[0][:60], "end to end from bytes (real parser -> WSGITask.execute -> server.application): " + fails[0], d)
                # K-e2e
                for j, w in enumerate(("with", "without", "without_all")):
                    m = P.e2e_parse_model(answers[6 * i + j])
                    r = P.e2e_real_canon(reals[w])
                    if tuple(m) != tuple(r):
                        k_ok = False
                        d = dict(base)
                        what = w
                        diff = ""
                        if m[0] == "ok" and r[0] == "ok":
                            for nm, md, rd in (("application", m[1], r[1]), ("task environ", m[2], r[2])):
                                for k in sorted(set(md) | set(rd)):
                                    if md.get(k) != rd.get(k):
                                        diff = "%s: %s model %r, real %r" % (nm, k, md.get(k), rd.get(k))
                                        break
                                if diff:
                                    break
                        else:
                            diff = "model %s, real %s" % (" ".join(str(x) for x in m[:2])[:80], " ".join(str(x) for x in r[:2])[:80])
                        d.update({"check": "model", "which": w, "expected": "the composed model's answer: " + diff, "observed": diff, "failing_input_found": True})
                        ctx.report("e2e-model:" + diff[:60], "composed model (parser -> environ -> middleware) and real code disagree on request bytes (%s): %s" % (w, diff), d)
                        break
                # the theorem's hypotheses and vocabulary, computed by the extracted functions on these very bytes
                if reals["with"][0] == "ok" and i in a2:
                    want_lines = [P.e2e_logical_line(n, v, pad) for n, v in lines]
                    got = answers[6 * i + 3].split(" ")
                    got_lines = [bytes.fromhex(x) if x != "-" else b"" for x in got[2:]]
                    hy = []
                    if got_lines != want_lines:
                        hy.append("head_parts reads %r, the request was generated from %r" % (got_lines[:4], want_lines[:4]))
                    kw_, kwo, kwa = a2[i][0], a2[i][1], a2[i][2]
                    if not (kw_ == kwo == kwa):
                        hy.append("kept_lines differ between the request and its deleted forms")
                    if kwa.split(" ")[1:] != answers[6 * i + 5].split(" ")[2:]:
                        hy.append("kept_lines of the fully deleted form is not the form itself")
                    for key, ans in zip(["HTTP_HOST"] + P.PROXY_KEYS, a2[i][3:]):
                        lname = "host" if key == "HTTP_HOST" else [n for n in P.E2E_NAMES if P.KIND_KEY[n] == key][0]
                        want = P.e2e_expected_key(lines, lname)
                        gotv = None if ans == "N" else P.unhx(ans[2:])
                        if gotv != want:
                            hy.append("value_of_lines (key_lines %s) = %r, independent reading %r" % (key, gotv, want))
                    if hy:
                        h_ok = False
                        d = dict(base)
                        d.update({"check": "hypotheses", "observed": hy[:4], "expected": "the generated pair satisfies the hypotheses of C15_e2e_two_requests as computed by the extracted model", "failing_input_found": True})
                        ctx.report("e2e-hyp:" + hy[0][:60], "end-to-end theorem vocabulary vs. generated request: " + hy[0], d)
                if not fails and len(out["samples"]) < 2 and untrusted and nd >= 2 and nu >= 1 and reals["with"][0] == "ok":
                    out["samples"].append({"request": repr(b"".join(ch3["with"]))[:400], "peer": list(addr), "server_kw": _kw_json(kw),
                                           "application_sees": {k: reals["with"][1].get(k) for k in P.META_KEYS + P.PROXY_KEYS if k in reals["with"][1]},
                                           "verdict": "metadata from context/Host only; equal to the deleted forms off the six keys"})
        finally:
            es.close()
    ctx.oblige("K-e2e: composed model (Parser -> Environ -> str_view -> serve) == real HTTPRequestParser + WSGITask.execute + server.application on the same bytes (served environ, task environ, error class), any segmentation", k_ok,
               "%d requests x 3 forms" % n_pairs)
    ctx.oblige("S-e2e-bytes: real code, untrusted peer, from bytes: metadata = context/Host line, request == request without proxy lines == request without proxy and underscore lines (off the six keys), underscore spellings never create a proxy key, cleared when clearing is on", s_ok,
               "%d untrusted triples" % n_untrusted)
    ctx.oblige("H-e2e: every generated triple satisfies the hypotheses of C15_e2e_two_requests as computed by the extracted head_parts / kept_lines, and value_of_lines/key_lines agree with an independent reading of the lines", h_ok)
    out["coverage"] = {
        "triples": n_pairs, "untrusted_accepted": n_untrusted, "trusted_peer_accepted": n_trusted, "rejected_by_parser_or_middleware": n_rejected,
        "real_status_of_request_with_headers": dict(status_dist), "line_kinds": dict(spell), "body_kinds": dict(body_dist),
        "segments_per_request": {str(k): v for k, v in sorted(seg_dist.items())}, "peers": dict(peer_dist),
        "server_configurations": len(E2E_CONFIGS), "model_queries": model_lines,
        "distribution": "request line x Host variants x benign/near-miss/CGI-looking names x 0..3 lines per proxy header in dash/upper/lower/random-case and underscore spellings, values from the C16 grammar incl. degenerate/hostile/blank, obs-fold inside values, Content-Length and chunked bodies, 1..3 segments; plus 23 directed requests per configuration",
    }
    return out


def listeners(ctx, rng, quick, nontrivial):
    """C15 x listeners: the configuration GIVEN vs. the configuration consulted, for every listener kind."""
    from lib.vcommon import hexb
    out = {"evaluations": 0, "coverage": {}}
    runner = ctx.runner("c15e2e", "ExtC15e2e.v")
    # (a) the configuration object
    cfg_ok = True
    n_cfg = n_cfg_refused = 0
    for pk in P.LSN_PROXY_KW + P.LSN_PROXY_KW_BAD:
        for tag, lk, shim in P.LSN_LISTENERS + P.LSN_LISTENERS_BAD:
            n_cfg += 1
            out["evaluations"] += 1
            got = P.lsn_adjustments(dict(pk, **lk))
            if got[0] == "refused":
                n_cfg_refused += 1
            fails = P.lsn_config_eval(pk, lk, adj_result=got)
            if fails:
                cfg_ok = False
                ctx.report("config:" + fails[0].split(" is ")[0][:40], "Adjustments(**kw) with listener options '%s': %s" % (tag, fails[0]),
                           {"kind": "listener-config", "proxy_kw": P.lsn_kw_json(pk), "listener_kw": lk, "listener": tag,
                            "expected": "the four proxy settings exactly as given (documented normalisation), independent of the listener options",
                            "observed": fails[:4], "failing_input_found": True})
    ctx.oblige("S-config: real Adjustments(**kw): trusted_proxy / trusted_proxy_count / trusted_proxy_headers / clear_untrusted_proxy_headers are the GIVEN values for every combination with the listener options (host, port, listen, ipv4, ipv6, unix_socket, unix_socket_perms, sockets=[inet|inet6|unix]); refused iff one part alone is refused", cfg_ok,
               "%d combinations, %d refused" % (n_cfg, n_cfg_refused))
    # (b) deployments
    dep_ok = two_ok = k_ok = peer_ok = True
    n_dep = n_srv = n_peers = n_triples = n_untrusted = n_trusted = 0
    kinds = P.Counter()
    trust = P.Counter()
    per = 2 if quick else 25
    for pk in P.LSN_PROXY_KW:
        for tag, lk, shim in P.LSN_LISTENERS:
            d = P.ListenerDeployment(pk, lk, shim)
            try:
                n_dep += 1
                base = {"proxy_kw": P.lsn_kw_json(pk), "listener_kw": lk, "listener": tag, "shim": shim}
                cmds, meta = [], []
                for si, server in enumerate(d.servers):
                    n_srv += 1
                    kinds[type(server).__name__ + ("/MultiSocketServer" if type(d.top).__name__ == "MultiSocketServer" else "")] += 1
                    fails = P.lsn_config_eval(pk, lk, adj_result=("ok", server.adj))
                    if d.top.adj is not server.adj:
                        fails.append("the listening server and the object returned by create_server hold different configuration objects")
                    wrapped = server.application is not d.app
                    if wrapped != bool(d.cfg.tp or d.cfg.clear):
                        fails.append("application wrapped=%s, the given configuration (trusted_proxy=%r, clearing=%r) says %s" % (wrapped, d.cfg.tp, d.cfg.clear, bool(d.cfg.tp or d.cfg.clear)))
                    if fails:
                        dep_ok = False
                        dd = dict(base)
                        dd.update({"kind": "listener-config", "via": "create_server", "observed": fails[:4], "failing_input_found": True,
                                   "expected": "server.adj carries the four proxy settings exactly as given"})
                        ctx.report("deploy:" + fails[0].split(" is ")[0][:40], "create_server(**kw) with listener options '%s': %s" % (tag, fails[0]), dd)
                    raws = P.LSN_RAW_PEERS[server.family]
                    for raw in raws:
                        n_peers += 1
                        addr = d.reported_peer(server, raw)
                        want_addr = P.lsn_expected_reported(server, raw)
                        if addr != want_addr:
                            peer_ok = False
                            dd = dict(base)
                            dd.update({"kind": "listener-peer", "server_index": si, "raw_peer": P.lsn_raw_json(raw), "expected": list(want_addr),
                                       "observed": repr(addr), "failing_input_found": True})
                            ctx.report("peer:%r" % (addr,), "%s reports the peer accepted from %r as %r, expected %r" % (type(server).__name__, raw, addr, want_addr), dd)
                            continue
                        untrusted = d.cfg.tp != "*" and d.cfg.tp != addr[0]
                        trust["%s peer %s / trusted_proxy=%s: %s" % ("unix" if addr[1] is None else ("tcp6" if ":" in addr[0] else "tcp4"),
                                                                   addr[0], d.cfg.tp, "untrusted" if untrusted else "TRUSTED")] += 1
                        d.select(server)
                        for ch3, lines, pad in P.lsn_hostile_requests(rng, per):
                            n_triples += 1
                            out["evaluations"] += 3
                            fails, reals = P.e2e_eval_real(d, addr, ch3, lines)
                            if reals["with"][0] == "ok":
                                if untrusted:
                                    n_untrusted += 1
                                else:
                                    n_trusted += 1
                                nontrivial.add("lsn" + hashlib.sha1(repr((sorted(base["proxy_kw"].items()), tag, si, addr, ch3["with"])).encode()).hexdigest())
                            rd = dict(base)
                            rd.update({"kind": "listener", "server_index": si, "server_class": type(server).__name__, "raw_peer": P.lsn_raw_json(raw),
                                       "reported_peer": list(addr), "configured_trusted_proxy": d.cfg.tp, "effective_adj_trusted_proxy": server.adj.trusted_proxy,
                                       "chunks_hex": {w: [c.hex() for c in ch3[w]] for w in ch3}, "lines_hex": [[n.hex(), v.hex()] for n, v in lines],
                                       "request": repr(b"".join(ch3["with"]))[:500]})
                            if fails:
                                two_ok = False
                                dd = dict(rd)
                                dd.update({"check": "statement", "observed": fails[:5], "failing_input_found": True,
                                           "expected": "the peer %r is not the configured trusted_proxy %r: no proxy header may influence the metadata%s" % (addr[0], d.cfg.tp, "; none may reach the application (clearing on)" if d.cfg.clear else "")})
                                ctx.report("listener:" + fails[0].split(" is ")[0][:40], "%s, listener '%s', peer reported as %r, configured trusted_proxy=%r: %s" % (type(server).__name__, tag, addr, d.cfg.tp, fails[0]), dd)
                            if runner is not None:
                                cmds.append(P.e2e_model_cmd(d, addr, ch3["with"]))
                                meta.append((rd, reals["with"], bool(fails)))
                if runner is not None and cmds:
                    for line, (rd, real, stmt_failed) in zip(runner.query(cmds), meta):
                        m = P.e2e_parse_model(line)
                        r = P.e2e_real_canon(real)
                        if tuple(m) != tuple(r):
                            k_ok = False
                            diff = "model %s, real %s" % (" ".join(str(x) for x in m[:2])[:80], " ".join(str(x) for x in r[:2])[:80])
                            if m[0] == "ok" and r[0] == "ok":
                                for k in sorted(set(m[1]) | set(r[1])):
                                    if m[1].get(k) != r[1].get(k):
                                        diff = "application: %s model %r, real %r" % (k, m[1].get(k), r[1].get(k))
                                        break
                            if stmt_failed:
                                continue        # already reported, with the statement that fails
                            dd = dict(rd)
                            dd.update({"check": "model", "observed": diff, "expected": "the composed model run with the GIVEN configuration", "failing_input_found": True})
                            ctx.report("listener-model:" + diff[:60], "deployment (listener '%s', peer %r): composed model under the GIVEN configuration and the real server disagree: %s" % (rd["listener"], rd["reported_peer"], diff), dd)
            finally:
                d.close()
    ctx.oblige("S-deploy: create_server(**kw) for every listener kind: server.adj carries the given proxy settings, the wrapper is installed per the given configuration", dep_ok, "%d deployments, %d listening servers" % (n_dep, n_srv))
    ctx.oblige("S-peer: the peer address handed to the channel by the real handle_accept/fix_addr is the accepted address (TCP) / ('localhost', None) (UNIX)", peer_ok, "%d accepted connections" % n_peers)
    ctx.oblige("S-listener: end to end from bytes on every deployment: a peer whose REPORTED address differs from the CONFIGURED trusted_proxy has no influence (two-run, metadata, clearing)", two_ok, "%d untrusted triples" % n_untrusted)
    ctx.oblige("K-listener: composed model run with the GIVEN configuration == real server (trusted and untrusted peers, incl. trusted_proxy='localhost' on a UNIX socket)", k_ok and runner is not None, "%d requests" % n_triples)
    out["coverage"] = {"configuration_combinations": n_cfg, "refused": n_cfg_refused, "deployments": n_dep, "listening_servers": n_srv,
                       "server_classes": dict(kinds), "accepted_connections": n_peers, "triples": n_triples,
                       "untrusted_accepted": n_untrusted, "trusted_accepted": n_trusted, "peer_x_trusted_proxy": dict(trust),
                       "proxy_settings": len(P.LSN_PROXY_KW), "proxy_settings_refused_alone": len(P.LSN_PROXY_KW_BAD),
                       "listener_option_sets": len(P.LSN_LISTENERS), "listener_option_sets_refused_alone": len(P.LSN_LISTENERS_BAD)}
    return out


def run(ctx):
    ctx.translate({"GenRegex"})
    ctx.gate()
    props_ok, failing, log = ctx.props()
    ctx.build(["Model/Proxy.vo", "Spec/ProxySpec.vo"])
    runner = ctx.runner("proxy", "ExtProxy.v")
    if runner is None:
        ctx.oblige("extracted proxy model builds", False, "see notes")
        return
    rng = ctx.rng
    quick = ctx.tier == "quick"
    evaluations = 0
    nontrivial = set()
    samples = []

    nprim, prim_ok = P.run_prims(ctx, runner)
    evaluations += nprim
    ctx.oblige("K-proxy/prim: undquote, strip_brackets, slicing and strip of the model agree with the real functions / CPython", prim_ok)

    # ---- K-proxy on a corpus dominated by untrusted peers
    n = 6000 if quick else 120000
    cases = [P.gen_case(rng, "untrusted") for _ in range(n)]
    mism, dist, reals = P.compare_model(runner, cases, log_rng=rng)
    evaluations += len(cases)
    P.report_model_mismatches(ctx, mism, "middleware")
    ctx.oblige("K-proxy: model agrees with the real middleware on every generated case (whole environ / 400 header / exception class)", not mism,
               "%d mismatches" % len(mism))

    # ---- search: the two-run statement on the real middleware
    two_ok = True
    n_two = 0
    hdr_count = P.Counter()
    cfg_dist = P.Counter()
    for (env, cfg), real in zip(cases, reals):
        if "REMOTE_ADDR" not in env or P.is_trusted_path(env, cfg):
            continue
        n_two += 1
        evaluations += 2
        npres = sum(1 for k in P.PROXY_KEYS if k in env)
        hdr_count[npres] += 1
        cfg_dist["trusted_proxy=%s clear=%s" % ("None" if cfg.tp is None else ("other" if cfg.tp else "''"), cfg.clear)] += 1
        if npres:
            nontrivial.add(P.case_key(env, cfg))
        fails = P.c15_tworun_eval(env, cfg)
        if fails:
            two_ok = False
            d = P.describe(env, cfg)
            d.update({"kind": "tworun", "expected": "environ equal to the one of the same request without the six proxy headers (outside those keys); metadata keys unchanged",
                      "observed": fails[:4], "failing_input_found": True})
            ctx.report("tworun:" + fails[0][:50], "untrusted peer influences the environ: " + fails[0], d)
        elif len(samples) < 3 and npres >= 3:
            samples.append({"peer": env["REMOTE_ADDR"], "config": P.cfg_json(cfg),
                            "proxy_headers": {k: env[k] for k in P.PROXY_KEYS if k in env}, "verdict": "no influence"})
    ctx.oblige("S-tworun: real middleware, untrusted peer: environ with the proxy headers == environ without them (off the six keys), metadata unchanged, cleared when clearing is on", two_ok)

    # ---- histories: many requests through the SAME middleware instance, logging of removed headers on
    nh, hm, tw = P.history_stream(runner, rng, 40 if quick else 600, 12, "untrusted")
    evaluations += nh
    for env, cfg, r, m, pos in hm[:10]:
        d = P.describe(env, cfg)
        d.update({"kind": "history", "position": pos, "expected": P.res_json(m), "observed": P.res_json(r),
                  "failing_input_found": True, "log_untrusted": True,
                  "note": "reproduces as a repeated request through ONE middleware instance (state kept between requests)"})
        ctx.report("history:" + P.case_key(env, cfg)[:12], "the middleware's answer depends on earlier requests (request %d of an instance): implementation %s ; model %s" % (pos, P.short(r), P.short(m)), d)
    for env, cfg, fails, pos in tw[:10]:
        if any(k in env for k in P.PROXY_KEYS):
            nontrivial.add("hist" + P.case_key(env, cfg))
        d = P.describe(env, cfg)
        d.update({"kind": "history", "position": pos, "expected": "no influence", "observed": fails[:4],
                  "failing_input_found": True, "log_untrusted": True})
        ctx.report("history-tworun:" + fails[0][:50], "untrusted peer influences the environ on request %d of a middleware instance: %s" % (pos, fails[0]), d)
    ctx.oblige("K-proxy/history: every request of a history through one middleware instance (log_untrusted on) equals the stateless model, and the two-run statement holds on each", not hm and not tw, "%d requests" % nh)

    # ---- the install condition and the wrapper built by the real server constructor
    inst_ok = True
    n_inst = 0
    refused = 0
    combos = []
    for tp in (None, "", P.PEER, P.OTHER, "*"):
        for clear in (True, False):
            for tph in (None, {"forwarded"}, {"x-forwarded-for", "x-forwarded-proto"}, {"X-Forwarded-Host", "x-forwarded-port"}):
                for count in (None, 2):
                    combos.append((tp, clear, tph, count))
    per = 40 if quick else 400
    for tp, clear, tph, count in combos:
        kw = {"clear_untrusted_proxy_headers": clear}
        if tp is not None:
            kw["trusted_proxy"] = tp
        if tph is not None:
            kw["trusted_proxy_headers"] = tph
        if count is not None:
            kw["trusted_proxy_count"] = count
        try:
            srv = P.RealServerApp(**kw)
        except ValueError:
            refused += 1
            continue
        try:
            n_inst += 1
            tpw = "N" if srv.cfg.tp is None else "S:" + P.hx(srv.cfg.tp)
            m_inst = runner.query(["installed %s %d" % (tpw, 1 if srv.cfg.clear else 0)])[0] == "1"
            if m_inst != srv.wrapped:
                inst_ok = False
                ctx.report("install:%r" % (kw,), "install condition: server wrapped the application=%s, model says %s for %r" % (srv.wrapped, m_inst, kw),
                           {"kind": "install", "config": P.cfg_json(srv.cfg), "expected": m_inst, "observed": srv.wrapped,
                            "environ_hex": {}, "failing_input_found": True})
            ecases = []
            for _ in range(per):
                env, _c = P.gen_case(rng, "untrusted")
                ecases.append((env, srv.cfg))
            mm, _d, rr = P.compare_model(runner, ecases, cmd="sv", real_fn=lambda e, c: srv.run(e))
            evaluations += len(ecases)
            if mm:
                inst_ok = False
                P.report_model_mismatches(ctx, mm, "server.application")
            for (env, cfg), r in zip(ecases, rr):
                if "REMOTE_ADDR" not in env or P.is_trusted_path(env, cfg):
                    continue
                fails = P.c15_tworun_eval(env, cfg, runner_fn=srv.run)
                evaluations += 2
                if any(k in env for k in P.PROXY_KEYS):
                    nontrivial.add("srv" + P.case_key(env, cfg))
                if not srv.wrapped and r[0] == "ok" and r[1] != env:
                    fails.append("no middleware configured but the environ was changed")
                if fails:
                    inst_ok = False
                    d = P.describe(env, cfg)
                    d.update({"kind": "tworun", "entry": "server.application", "observed": fails[:4],
                              "expected": "no influence", "failing_input_found": True})
                    ctx.report("tworun-srv:" + fails[0][:50], "untrusted peer influences the environ (application as wrapped by the server): " + fails[0], d)
        finally:
            srv.close()
    ctx.oblige("K-install: create_server wraps the application exactly when the model's install condition holds, and the wrapped application equals the model's serve (incl. two-run check)", inst_ok,
               "%d configurations built, %d refused by Adjustments" % (n_inst, refused))

    # ---- end to end: raw request bytes -> real parser -> real task environ -> wrapper
    e2e_ok = True
    n_e2e = 0
    for kw in ({}, {"trusted_proxy": P.OTHER, "trusted_proxy_headers": {"x-forwarded-for", "x-forwarded-host", "x-forwarded-proto"}},
               {"trusted_proxy": P.OTHER, "trusted_proxy_headers": {"forwarded"}, "clear_untrusted_proxy_headers": False},
               {"clear_untrusted_proxy_headers": False}):
        srv = P.RealServerApp(**kw)
        try:
            for raw, raw_without, lines in e2e_requests(rng, 150 if quick else 2500):
                env = P.environ_from_request(srv.server, P.PEER, raw)
                env0 = P.environ_from_request(srv.server, P.PEER, raw_without)
                n_e2e += 1
                evaluations += 2
                if env is None or env0 is None:
                    continue
                fails = []
                # an alias spelled with '_' must not become a proxy header key
                dashed = {("HTTP_" + k.upper().replace("-", "_")) for k, _ in lines if "_" not in k}
                for k in P.PROXY_KEYS:
                    if k in env and k not in dashed:
                        fails.append("%s created from an underscore alias" % k)
                a = srv.run(env)
                b = srv.run(env0)
                if a[0] != "ok" or b[0] != "ok":
                    fails.append("request not handed to the application: %s / %s" % (P.short(a), P.short(b)))
                else:
                    for k in set(a[1]) | set(b[1]):
                        if k not in P.PROXY_KEYS and a[1].get(k) != b[1].get(k):
                            fails.append("%s differs: %r with the headers, %r without" % (k, a[1].get(k), b[1].get(k)))
                    if srv.cfg.clear and any(k in a[1] for k in P.PROXY_KEYS):
                        fails.append("proxy header reached the application although clearing is on")
                    nontrivial.add("e2e" + hashlib.sha1(raw + repr(sorted(kw.items())).encode()).hexdigest())
                if fails:
                    e2e_ok = False
                    ctx.report("e2e:" + fails[0][:50], "end to end (parser -> task -> wrapper): " + fails[0],
                               {"kind": "e2e", "request_hex": raw.hex(), "server_kw": {k: (sorted(v) if isinstance(v, set) else v) for k, v in kw.items()},
                                "observed": fails[:4], "expected": "no influence", "failing_input_found": True})
        finally:
            srv.close()
    ctx.oblige("S-e2e: raw request with hostile proxy headers / underscore aliases vs. the same request without them, through the real parser, task environ and server wrapper", e2e_ok)


    # ---- end to end from BYTES: the composed model (C15_e2e_*) against the real parser + task.execute + wrapper
    e2e2 = e2e_bytes(ctx, rng, quick, nontrivial)
    evaluations += e2e2["evaluations"]

    # ---- the configuration GIVEN vs. the configuration consulted, crossed with the listener kinds
    lsn = listeners(ctx, rng, quick, nontrivial)
    evaluations += lsn["evaluations"]

    if not props_ok and not ctx.violations:
        ctx.report("c15-proof-broken", "Props/C15.v no longer checks (%s)" % failing,
                   {"failing_input_found": False, "broken": "Props/C15.v via %s" % failing, "log_tail": (log or "")[-1500:]})

    ctx.coverage.update({
        "evaluations": evaluations,
        "distinct_nontrivial": len(nontrivial),
        "rule": "generated (environ, configuration) pairs; non-trivial = distinct cases of an untrusted peer that carry at least one of the six proxy headers (middleware, server wrapper and end-to-end streams)",
        "samples": samples,
        "model_vs_real_cases": len(cases),
        "real_outcome_distribution": dict(dist),
        "two_run_cases": n_two,
        "proxy_headers_present_distribution": {str(k): v for k, v in sorted(hdr_count.items())},
        "configuration_distribution": dict(cfg_dist),
        "server_configurations_built": n_inst,
        "server_configurations_refused_by_adjustments": refused,
        "end_to_end_requests": n_e2e,
        "history_requests": nh,
        "primitive_cases": nprim,
        "e2e_bytes": e2e2["coverage"],
        "listeners": lsn["coverage"],
    })
    for smp in e2e2["samples"]:
        if len(ctx.coverage["samples"]) < 5:
            ctx.coverage["samples"].append(smp)


def replay(data):
    if data.get("kind") == "history":
        # the same request several times through one middleware instance
        env = P.env_from_json(data["environ_hex"])
        cfg = P.cfg_from_json(data["config"])
        inst = P.RealMiddleware(cfg, log_untrusted=True)
        first = inst.run(env)
        bad = 0
        for i in range(1, 6):
            r = inst.run(env)
            if P.canon(r) != P.canon(first):
                print("request %d differs from request 0: %s vs %s" % (i, P.short(r), P.short(first)))
                bad = 1
            if P.c15_tworun_eval(env, cfg, runner_fn=inst.run) and "REMOTE_ADDR" in env and not P.is_trusted_path(env, cfg):
                print("two-run statement fails on request %d" % i)
                bad = 1
        print("config=%s headers=%r -> %s" % (data["config"], data.get("proxy_headers"), "still fails" if bad else "holds now"))
        return bad
    if data.get("kind") == "e2e":
        kw = dict(data["server_kw"])
        if "trusted_proxy_headers" in kw:
            kw["trusted_proxy_headers"] = set(kw["trusted_proxy_headers"])
        srv = P.RealServerApp(**kw)
        raw = bytes.fromhex(data["request_hex"])
        env = P.environ_from_request(srv.server, P.PEER, raw)
        stripped = {k: v for k, v in env.items() if k not in P.PROXY_KEYS}
        a, b = srv.run(env), srv.run(stripped)
        same = a[0] == b[0] == "ok" and all(a[1].get(k) == b[1].get(k) for k in set(a[1]) | set(b[1]) if k not in P.PROXY_KEYS)
        print("request=%r\n with=%s\n without=%s" % (raw, P.short(a), P.short(b)))
        return 0 if same else 1
    if data.get("kind") == "e2e-bytes":
        es = P.E2EServer(**_kw_from_json(data["server_kw"]))
        try:
            addr = tuple(data["addr"])
            ch3 = {w: [bytes.fromhex(c) for c in data["chunks_hex"][w]] for w in data["chunks_hex"]}
            lines = [(bytes.fromhex(n), bytes.fromhex(v)) for n, v in data["lines_hex"]]
            fails, reals = P.e2e_eval_real(es, addr, ch3, lines)
            bad = 1 if fails else 0
            print("request=%s\n peer=%r server=%r" % (data.get("request"), addr, data["server_kw"]))
            for w in ("with", "without", "without_all"):
                print(" %-12s -> %s" % (w, P.short(reals[w]) if reals[w][0] == "ok" else reals[w][0]))
            if data.get("check") == "model":
                from lib.vcommon import build_runner, Runner
                path, _log = build_runner("c15e2e", "ExtC15e2e.v")
                if path:
                    w = data.get("which", "with")
                    m = P.e2e_parse_model(Runner(path).query([P.e2e_model_cmd(es, addr, ch3[w])])[0])
                    if tuple(m) != tuple(P.e2e_real_canon(reals[w])):
                        print(" composed model and real code still disagree on the %r form" % w)
                        bad = 1
            print(" %s" % (fails[:5] if fails else ("statement holds now" if not bad else "")))
            return bad
        finally:
            es.close()
    if data.get("kind") == "listener-config":
        pk, lk = P.lsn_kw_from_json(data["proxy_kw"]), data["listener_kw"]
        fails = P.lsn_config_eval(pk, lk)
        if data.get("via") == "create_server" and not fails:
            d = P.ListenerDeployment(pk, lk, data.get("shim"))
            try:
                for server in d.servers:
                    fails += P.lsn_config_eval(pk, lk, adj_result=("ok", server.adj))
            finally:
                d.close()
        print("given %r + listener options %r\n %s" % (data["proxy_kw"], lk, fails or "the configuration object carries the given proxy settings now"))
        return 1 if fails else 0
    if data.get("kind") in ("listener", "listener-peer"):
        pk, lk = P.lsn_kw_from_json(data["proxy_kw"]), data["listener_kw"]
        d = P.ListenerDeployment(pk, lk, data.get("shim"))
        try:
            server = d.servers[data["server_index"]]
            raw = P.lsn_raw_from_json(data["raw_peer"])
            addr = d.reported_peer(server, raw)
            print("given %r + listener options %r -> %s; effective adj.trusted_proxy=%r\n accepted from %r, reported as %r"
                  % (data["proxy_kw"], lk, type(server).__name__, server.adj.trusted_proxy, raw, addr))
            if addr != P.lsn_expected_reported(server, raw):
                print(" peer misreported")
                return 1
            if data["kind"] == "listener-peer":
                return 0
            ch3 = {w: [bytes.fromhex(c) for c in data["chunks_hex"][w]] for w in data["chunks_hex"]}
            lines = [(bytes.fromhex(n), bytes.fromhex(v)) for n, v in data["lines_hex"]]
            d.select(server)
            fails, reals = P.e2e_eval_real(d, addr, ch3, lines)
            bad = 1 if fails else 0
            print(" request=%s" % data.get("request"))
            for w in ("with", "without"):
                print(" %-8s -> %s" % (w, P.short(reals[w]) if reals[w][0] == "ok" else reals[w][0]))
            if data.get("check") == "model":
                from lib.vcommon import build_runner, Runner
                path, _log = build_runner("c15e2e", "ExtC15e2e.v")
                if path:
                    m = P.e2e_parse_model(Runner(path).query([P.e2e_model_cmd(d, addr, ch3["with"])])[0])
                    if tuple(m) != tuple(P.e2e_real_canon(reals["with"])):
                        print(" composed model (given configuration) and real server still disagree")
                        bad = 1
            print(" %s" % (fails[:5] if fails else ("holds now" if not bad else "")))
            return bad
        finally:
            d.close()
    if data.get("kind") == "install":
        print("install condition mismatch for %r; re-run the check" % data.get("config"))
        return 1
    return P.replay_common(data)
