"""C15 -- untrusted peers cannot influence connection metadata.

Decided by: Coq theorems (Props/C15.v) about the executable model of
proxy_headers.py and of the install condition in server.py (Model/Proxy.v):
a two-run non-interference statement for every environ, every value of the
six proxy headers and every configuration.  Tied to the code by K-proxy (the
real proxy_headers_middleware and the application as wrapped by the real
server constructor against the extracted model, whole environ compared), and
searched directly on the real code: two runs (with / without the headers)
through the middleware, through create_server's wrapper, and from raw request
bytes through the real parser and WSGITask.get_environment (underscore
aliases included)."""
import hashlib

from harness import proxy as P

LEVEL = "proof"
ASSUMPTIONS = [
    "environ values are str (latin-1 decoded header text); non-str entries (wsgi.input ...) are never read or written by the middleware",
    "logging calls of the middleware are not modelled (no effect on the environ)",
    "the environ the middleware receives is the one built by task.get_environment (K-env / C07 cover its construction; an end-to-end stream here runs the real parser and task for the proxy headers and their underscore aliases)",
]


def e2e_requests(rng, n):
    """raw requests with hostile proxy headers, dash and underscore spellings"""
    names = ["X-Forwarded-For", "X-Forwarded-Host", "X-Forwarded-Proto", "X-Forwarded-Port", "X-Forwarded-By", "Forwarded"]
    vals = ["6.6.6.6", "evil.example:1", "https", "1", "for=6.6.6.6;host=evil.example;proto=https", '"', ":80",
            "1.1.1.1, 2.2.2.2", "for=:80", 'for=" "', "ftp"]
    out = []
    for _ in range(n):
        lines = []
        for nm in names:
            r = rng.random()
            if r < 0.5:
                lines.append((nm, rng.choice(vals)))
            if rng.random() < 0.3:
                alias = nm.replace("-", "_") if rng.random() < 0.6 else nm.replace("-", "_", 1)
                lines.append((rng.choice([alias, alias.upper(), alias.lower()]), rng.choice(vals)))
            if rng.random() < 0.1:
                lines.append((nm.upper(), rng.choice(vals)))   # repeated header: values are joined
        rng.shuffle(lines)
        head = b"GET /p?q=1 HTTP/1.1\r\nHost: front.example\r\nUser-Agent: x\r\n"
        body = b"".join(("%s: %s\r\n" % (k, v)).encode("latin-1") for k, v in lines)
        out.append((head + body + b"\r\n", head + b"\r\n", lines))
    return out


def run(ctx):
    ctx.translate({"GenRegex"})
    ctx.gate()
    props_ok, failing, log = ctx.props()
    ctx.build(["Model/Proxy.vo", "Spec/ProxySpec.vo"])
    runner = ctx.runner("proxy", "ExtProxy.v")
    if runner is None:
        ctx.oblige("extracted proxy model builds", False, "see notes")
        return
    rng = ctx.rng
    quick = ctx.tier == "quick"
    evaluations = 0
    nontrivial = set()
    samples = []

    nprim, prim_ok = P.run_prims(ctx, runner)
    evaluations += nprim
    ctx.oblige("K-proxy/prim: undquote, strip_brackets, slicing and strip of the model agree with the real functions / CPython", prim_ok)

    # ---- K-proxy on a corpus dominated by untrusted peers
    n = 6000 if quick else 120000
    cases = [P.gen_case(rng, "untrusted") for _ in range(n)]
    mism, dist, reals = P.compare_model(runner, cases, log_rng=rng)
    evaluations += len(cases)
    P.report_model_mismatches(ctx, mism, "middleware")
    ctx.oblige("K-proxy: model agrees with the real middleware on every generated case (whole environ / 400 header / exception class)", not mism,
               "%d mismatches" % len(mism))

    # ---- search: the two-run statement on the real middleware
    two_ok = True
    n_two = 0
    hdr_count = P.Counter()
    cfg_dist = P.Counter()
    for (env, cfg), real in zip(cases, reals):
        if "REMOTE_ADDR" not in env or P.is_trusted_path(env, cfg):
            continue
        n_two += 1
        evaluations += 2
        npres = sum(1 for k in P.PROXY_KEYS if k in env)
        hdr_count[npres] += 1
        cfg_dist["trusted_proxy=%s clear=%s" % ("None" if cfg.tp is None else ("other" if cfg.tp else "''"), cfg.clear)] += 1
        if npres:
            nontrivial.add(P.case_key(env, cfg))
        fails = P.c15_tworun_eval(env, cfg)
        if fails:
            two_ok = False
            d = P.describe(env, cfg)
            d.update({"kind": "tworun", "expected": "environ equal to the one of the same request without the six proxy headers (outside those keys); metadata keys unchanged",
                      "observed": fails[:4], "failing_input_found": True})
            ctx.report("tworun:" + fails[0][:50], "untrusted peer influences the environ: " + fails[0], d)
        elif len(samples) < 3 and npres >= 3:
            samples.append({"peer": env["REMOTE_ADDR"], "config": P.cfg_json(cfg),
                            "proxy_headers": {k: env[k] for k in P.PROXY_KEYS if k in env}, "verdict": "no influence"})
    ctx.oblige("S-tworun: real middleware, untrusted peer: environ with the proxy headers == environ without them (off the six keys), metadata unchanged, cleared when clearing is on", two_ok)

    # ---- histories: many requests through the SAME middleware instance, logging of removed headers on
    nh, hm, tw = P.history_stream(runner, rng, 40 if quick else 600, 12, "untrusted")
    evaluations += nh
    for env, cfg, r, m, pos in hm[:10]:
        d = P.describe(env, cfg)
        d.update({"kind": "history", "position": pos, "expected": P.res_json(m), "observed": P.res_json(r),
                  "failing_input_found": True, "log_untrusted": True,
                  "note": "reproduces as a repeated request through ONE middleware instance (state kept between requests)"})
        ctx.report("history:" + P.case_key(env, cfg)[:12], "the middleware's answer depends on earlier requests (request %d of an instance): implementation %s ; model %s" % (pos, P.short(r), P.short(m)), d)
    for env, cfg, fails, pos in tw[:10]:
        if any(k in env for k in P.PROXY_KEYS):
            nontrivial.add("hist" + P.case_key(env, cfg))
        d = P.describe(env, cfg)
        d.update({"kind": "history", "position": pos, "expected": "no influence", "observed": fails[:4],
                  "failing_input_found": True, "log_untrusted": True})
        ctx.report("history-tworun:" + fails[0][:50], "untrusted peer influences the environ on request %d of a middleware instance: %s" % (pos, fails[0]), d)
    ctx.oblige("K-proxy/history: every request of a history through one middleware instance (log_untrusted on) equals the stateless model, and the two-run statement holds on each", not hm and not tw, "%d requests" % nh)

    # ---- the install condition and the wrapper built by the real server constructor
    inst_ok = True
    n_inst = 0
    refused = 0
    combos = []
    for tp in (None, "", P.PEER, P.OTHER, "*"):
        for clear in (True, False):
            for tph in (None, {"forwarded"}, {"x-forwarded-for", "x-forwarded-proto"}, {"X-Forwarded-Host", "x-forwarded-port"}):
                for count in (None, 2):
                    combos.append((tp, clear, tph, count))
    per = 40 if quick else 400
    for tp, clear, tph, count in combos:
        kw = {"clear_untrusted_proxy_headers": clear}
        if tp is not None:
            kw["trusted_proxy"] = tp
        if tph is not None:
            kw["trusted_proxy_headers"] = tph
        if count is not None:
            kw["trusted_proxy_count"] = count
        try:
            srv = P.RealServerApp(**kw)
        except ValueError:
            refused += 1
            continue
        try:
            n_inst += 1
            tpw = "N" if srv.cfg.tp is None else "S:" + P.hx(srv.cfg.tp)
            m_inst = runner.query(["installed %s %d" % (tpw, 1 if srv.cfg.clear else 0)])[0] == "1"
            if m_inst != srv.wrapped:
                inst_ok = False
                ctx.report("install:%r" % (kw,), "install condition: server wrapped the application=%s, model says %s for %r" % (srv.wrapped, m_inst, kw),
                           {"kind": "install", "config": P.cfg_json(srv.cfg), "expected": m_inst, "observed": srv.wrapped,
                            "environ_hex": {}, "failing_input_found": True})
            ecases = []
            for _ in range(per):
                env, _c = P.gen_case(rng, "untrusted")
                ecases.append((env, srv.cfg))
            mm, _d, rr = P.compare_model(runner, ecases, cmd="sv", real_fn=lambda e, c: srv.run(e))
            evaluations += len(ecases)
            if mm:
                inst_ok = False
                P.report_model_mismatches(ctx, mm, "server.application")
            for (env, cfg), r in zip(ecases, rr):
                if "REMOTE_ADDR" not in env or P.is_trusted_path(env, cfg):
                    continue
                fails = P.c15_tworun_eval(env, cfg, runner_fn=srv.run)
                evaluations += 2
                if any(k in env for k in P.PROXY_KEYS):
                    nontrivial.add("srv" + P.case_key(env, cfg))
                if not srv.wrapped and r[0] == "ok" and r[1] != env:
                    fails.append("no middleware configured but the environ was changed")
                if fails:
                    inst_ok = False
                    d = P.describe(env, cfg)
                    d.update({"kind": "tworun", "entry": "server.application", "observed": fails[:4],
                              "expected": "no influence", "failing_input_found": True})
                    ctx.report("tworun-srv:" + fails[0][:50], "untrusted peer influences the environ (application as wrapped by the server): " + fails[0], d)
        finally:
            srv.close()
    ctx.oblige("K-install: create_server wraps the application exactly when the model's install condition holds, and the wrapped application equals the model's serve (incl. two-run check)", inst_ok,
               "%d configurations built, %d refused by Adjustments" % (n_inst, refused))

    # ---- end to end: raw request bytes -> real parser -> real task environ -> wrapper
    e2e_ok = True
    n_e2e = 0
    for kw in ({}, {"trusted_proxy": P.OTHER, "trusted_proxy_headers": {"x-forwarded-for", "x-forwarded-host", "x-forwarded-proto"}},
               {"trusted_proxy": P.OTHER, "trusted_proxy_headers": {"forwarded"}, "clear_untrusted_proxy_headers": False},
               {"clear_untrusted_proxy_headers": False}):
        srv = P.RealServerApp(**kw)
        try:
            for raw, raw_without, lines in e2e_requests(rng, 150 if quick else 2500):
                env = P.environ_from_request(srv.server, P.PEER, raw)
                env0 = P.environ_from_request(srv.server, P.PEER, raw_without)
                n_e2e += 1
                evaluations += 2
                if env is None or env0 is None:
                    continue
                fails = []
                # an alias spelled with '_' must not become a proxy header key
                dashed = {("HTTP_" + k.upper().replace("-", "_")) for k, _ in lines if "_" not in k}
                for k in P.PROXY_KEYS:
                    if k in env and k not in dashed:
                        fails.append("%s created from an underscore alias" % k)
                a = srv.run(env)
                b = srv.run(env0)
                if a[0] != "ok" or b[0] != "ok":
                    fails.append("request not handed to the application: %s / %s" % (P.short(a), P.short(b)))
                else:
                    for k in set(a[1]) | set(b[1]):
                        if k not in P.PROXY_KEYS and a[1].get(k) != b[1].get(k):
                            fails.append("%s differs: %r with the headers, %r without" % (k, a[1].get(k), b[1].get(k)))
                    if srv.cfg.clear and any(k in a[1] for k in P.PROXY_KEYS):
                        fails.append("proxy header reached the application although clearing is on")
                    nontrivial.add("e2e" + hashlib.sha1(raw + repr(sorted(kw.items())).encode()).hexdigest())
                if fails:
                    e2e_ok = False
                    ctx.report("e2e:" + fails[0][:50], "end to end (parser -> task -> wrapper): " + fails[0],
                               {"kind": "e2e", "request_hex": raw.hex(), "server_kw": {k: (sorted(v) if isinstance(v, set) else v) for k, v in kw.items()},
                                "observed": fails[:4], "expected": "no influence", "failing_input_found": True})
        finally:
            srv.close()
    ctx.oblige("S-e2e: raw request with hostile proxy headers / underscore aliases vs. the same request without them, through the real parser, task environ and server wrapper", e2e_ok)

    if not props_ok and not ctx.violations:
        ctx.report("c15-proof-broken", "Props/C15.v no longer checks (%s)" % failing,
                   {"failing_input_found": False, "broken": "Props/C15.v via %s" % failing, "log_tail": (log or "")[-1500:]})

    ctx.coverage.update({
        "evaluations": evaluations,
        "distinct_nontrivial": len(nontrivial),
        "rule": "generated (environ, configuration) pairs; non-trivial = distinct cases of an untrusted peer that carry at least one of the six proxy headers (middleware, server wrapper and end-to-end streams)",
        "samples": samples,
        "model_vs_real_cases": len(cases),
        "real_outcome_distribution": dict(dist),
        "two_run_cases": n_two,
        "proxy_headers_present_distribution": {str(k): v for k, v in sorted(hdr_count.items())},
        "configuration_distribution": dict(cfg_dist),
        "server_configurations_built": n_inst,
        "server_configurations_refused_by_adjustments": refused,
        "end_to_end_requests": n_e2e,
        "history_requests": nh,
        "primitive_cases": nprim,
    })


def replay(data):
    if data.get("kind") == "history":
        # the same request several times through one middleware instance
        env = P.env_from_json(data["environ_hex"])
        cfg = P.cfg_from_json(data["config"])
        inst = P.RealMiddleware(cfg, log_untrusted=True)
        first = inst.run(env)
        bad = 0
        for i in range(1, 6):
            r = inst.run(env)
            if P.canon(r) != P.canon(first):
                print("request %d differs from request 0: %s vs %s" % (i, P.short(r), P.short(first)))
                bad = 1
            if P.c15_tworun_eval(env, cfg, runner_fn=inst.run) and "REMOTE_ADDR" in env and not P.is_trusted_path(env, cfg):
                print("two-run statement fails on request %d" % i)
                bad = 1
        print("config=%s headers=%r -> %s" % (data["config"], data.get("proxy_headers"), "still fails" if bad else "holds now"))
        return bad
    if data.get("kind") == "e2e":
        kw = dict(data["server_kw"])
        if "trusted_proxy_headers" in kw:
            kw["trusted_proxy_headers"] = set(kw["trusted_proxy_headers"])
        srv = P.RealServerApp(**kw)
        raw = bytes.fromhex(data["request_hex"])
        env = P.environ_from_request(srv.server, P.PEER, raw)
        stripped = {k: v for k, v in env.items() if k not in P.PROXY_KEYS}
        a, b = srv.run(env), srv.run(stripped)
        same = a[0] == b[0] == "ok" and all(a[1].get(k) == b[1].get(k) for k in set(a[1]) | set(b[1]) if k not in P.PROXY_KEYS)
        print("request=%r\n with=%s\n without=%s" % (raw, P.short(a), P.short(b)))
        return 0 if same else 1
    if data.get("kind") == "install":
        print("install condition mismatch for %r; re-run the check" % data.get("config"))
        return 1
    return P.replay_common(data)
