"""C13 -- client faults are contained; teardown happens once, on the I/O thread only.

Decided by: machine-checked invariants over all schedules and all fault
placements of the narrow model coq/Model/ChanFault.v (Props/C13.v: C13_loop,
C13_listener, C13_once for the configurations that have the two knob values read
from the source on THIS run -- coq/Gen/GenChanKnobs.v, written by this check before
the build, worst values when the source's shape is not understood -- C13_workers,
the per-knob and partial forms, the isolation step theorems and their composition
C13_isolation / _wire / _views: every run of the two-connection model, whatever is
injected on connection a, is matched by a run WITHOUT a that shows the observer of
connection b the same events, wire bytes included -- Proof/ChanFaultIso2*.v), tied to the code by
  (a) a shape audit: the ast signature (try/except ladders, lock scopes, flag
      tests, the calls that tear down, the do_close arguments, _DISCONNECTED) of
      every method the model transliterates, against the signature the model was
      written from; the one knob the model takes from the source (the do_close of
      the worker-side send_continue) is read off the ast;
  (b) K-chanfault: the REAL HTTPChannel + ThreadedTaskDispatcher + wasyncore.poll /
      poll2 under the deterministic scheduler (harness/chanfault.FaultWorld), and
      the REAL TcpWSGIServer + trigger over fake sockets (ListenerWorld), replayed
      step by step on the extracted model: same labels (handle_close, buffers,
      map / active_channels deletions, socket.close with their thread, wire bytes)
      and same abstract channel state after every scheduling block;
  (c) the property's monitor on the real traces: all single (quick) and double
      (thorough) fault placements over the socket calls of small scenarios x
      seeded random / PCT / bounded exhaustive schedules; every errno of
      errno.errorcode once per kind of call; accept-path faults x listener family /
      peer-address shape x log_socket_errors x logging on/off, each followed by a
      healthy client that must be served.
The shape audit records the bodies of `except` handlers and `finally` blocks of the
modelled methods IN FULL (string literals blinded), not only the watched names: what
is evaluated while a fault is being handled can raise and escape the ladder.
Findings F17 and F18 are repaired in /repo (8a2ea3a, da3bf3a): a regression of either
flips a knob (Props/C13.v stops compiling), changes the audited shape, and is found by
the search (listener closed / teardown by a worker / loop death, with scenario+schedule).
The other half of F18 -- the I/O thread flushing unlocked while the worker flushes inside
send_continue (duplicate send, negative total_outbufs_len) -- is C04's subject: the model
contains it, the C13 monitor has no clause about it."""
import errno
import hashlib
import itertools
import json
import os
import random

from lib import vcommon

LEVEL = "proof"
ASSUMPTIONS = [
    "granularity: a real logical thread is pre-empted only at lock operations, socket calls, select and pull_trigger (the scheduler harness); the model is finer (one shared access per instruction), the proofs cover the finer interleavings",
    "the kernel: select() refuses a closed descriptor with EBADF when it is called, poll() reports POLLNVAL; descriptor numbers are not reused while a stale reference exists; socket.close() and logging do not fail",
    "exceptional conditions / POLLHUP are reported for connection sockets only (a client cannot put the listening socket in error)",
    "one worker per channel: with several pool workers the tail of service() after add_task (release of requests_lock, pull_trigger, last_activity) can overlap the next service() of the same channel; these steps touch nothing C13 speaks about and commute to the left, the model runs them first (conformance runs use one pool worker, monitor runs also two)",
    "parser and application are part of the environment (all outcomes)",
    "the shape audit keys on the statements listed in harness/chanfault.WATCH_*; code between two scheduling points touches only what the audit lists",
    "C13_isolation is a theorem about the model's two connections (possibilistic: for every run there EXISTS a run without the faulted connection with the same view of the other one); the view hides the other connection's labels and the I/O thread's diagnostic label LCaught (it names no connection); descriptor numbers are not reused, the pool has one worker per connection, the trigger's pulled state is not modelled (select may report it at any time), so timing / wake-up interference is outside the statement",
]



def _errno_name(e):
    return errno.errorcode.get(e, str(e)) if isinstance(e, int) else str(e)


def run(ctx):
    from harness import chanfault as H
    from harness.sched import RandomPolicy, PCTPolicy, explore

    # the two knobs of the model, regenerated from the source before anything is built
    with vcommon.Lock("gen"):
        wc_close, init_guarded, knob_problems = H.write_knobs(src_dir_of(), os.path.join(vcommon.COQ, "Gen", "GenChanKnobs.v"))
    ctx.oblige("the knobs of the model are read off the source (service()/send_continue() do_close; handle_accept's try)",
               not knob_problems, "; ".join(knob_problems))
    ctx.gate()
    props_ok, failing, log = ctx.props()
    ctx.build(["Proof/ChanFaultSpec.vo"])
    runner = ctx.runner("chanfault", "ExtChanfault.v")
    if runner is None:
        ctx.oblige("extracted C13 model runner builds", False, "see notes")
        return
    rng = ctx.rng
    thorough = ctx.tier == "thorough"
    src = vcommon.SRC

    # ---- (a) shape audit ---------------------------------------------------------
    diff, sig = H.shape_audit(src)
    wc_err = "; ".join(knob_problems)
    ctx.oblige("shape audit: the modelled methods of wasyncore/channel/server/trigger/task have the statements the model transliterates",
               not diff and not wc_err, "; ".join(diff) + (" | " + wc_err if wc_err else ""))
    if diff or wc_err:
        ctx.report("shape:" + ",".join(diff)[:80], "the source no longer has the shape the model was written from: %s %s" % (diff, wc_err),
                   {"failing_input_found": False, "methods": diff, "detail": wc_err,
                    "now": {k: sig.get(k) for k in diff}, "expected": {k: H.EXPECTED_SHAPE.get(k) for k in diff}})

    stats = {"runs": 0, "tokens": 0, "listener_runs": 0, "conform_bad": 0, "fault_kinds": {}, "sched_kinds": {},
             "scenarios": {}, "verdicts": {}, "in_f18_class": 0, "in_f17_class": 0, "problems_outside": 0,
             "listener_families": {}, "listener_log_records_formatted": 0, "listener_log_format_errors": 0}
    nontrivial = set()
    samples = []
    f18_seen = []
    f17_seen = []
    conform_ok = [True]
    monitor_ok = [True]

    def note_fault(pls):
        for p in pls:
            k = "%s:%s" % (p[1], _errno_name(p[3]))
            stats["fault_kinds"][k] = stats["fault_kinds"].get(k, 0) + 1

    def one_run(case, kind, policy=None, schedule=(), reference=None, conform=True, pls=()):
        """run one case on the real code; conformance + monitor"""
        w = H.make_world(case, schedule=schedule, policy=policy)
        w.run()
        stats["runs"] += 1
        stats["sched_kinds"][kind] = stats["sched_kinds"].get(kind, 0) + 1
        scn = case["scenario"] if isinstance(case["scenario"], str) else "custom"
        stats["scenarios"][scn] = stats["scenarios"].get(scn, 0) + 1
        stats["verdicts"][w.verdict] = stats["verdicts"].get(w.verdict, 0) + 1
        replay = {"world": "fault", "case": case, "choices": list(w.sched.choices), "failing_input_found": True}
        # -- conformance
        if conform:
            try:
                toks, exps = H.tokens(w)
                ans = runner.query([H.run_line(w, toks, len(w.socks), wc_close, init_guarded)])[0]
                d = H.compare(w, toks, exps, ans)
                stats["tokens"] += len(toks)
            except H.TieError as e:
                d = "tie: %s" % e
            if d is not None:
                conform_ok[0] = False
                stats["conform_bad"] += 1
                ctx.report("conform:" + hashlib.sha1(d.encode()).hexdigest()[:8],
                           "model and implementation disagree: " + d,
                           dict(replay, expected="the model's labels and abstract state", observed=d, check="conformance"))
        # -- the property's monitor
        problems, wcont = H.monitor(w, reference)
        for fd in w.socks:
            if sum(1 for e in w.sched.events if e[1] == "hclose" and e[2] == fd and e[0] == "io") >= 2:
                stats["double_handle_close_on_io"] = stats.get("double_handle_close_on_io", 0) + 1
        labels = tuple(sorted(set(p[0] for p in problems)))
        teardown = any(e[1] in ("hclose", "close") for e in w.sched.events)
        if pls or teardown:
            nontrivial.add((scn, tuple(pls), kind, hashlib.sha1(repr([e for e in w.sched.events if e[1] in (
                "hclose", "close", "map_del", "act_del", "wire", "io_loop_died")]).encode()).hexdigest()[:12]))
        if wcont:
            stats["in_f18_class"] += 1
        if problems:
            monitor_ok[0] = False
            stats["problems_outside"] += 1
            ctx.report("monitor:" + ",".join(labels) + ":" + scn,
                       "C13 monitor: %r" % (problems[:4],),
                       dict(replay, expected="no problems", observed=[list(map(str, p)) for p in problems[:6]], check="monitor",
                            worker_side_send_continue=wcont))
        return w, problems

    # ---- (b)+(c) scenarios x fault placements x schedules ----------------------------
    names = list(H.SCENARIOS)
    for name in names:
        base = {"scenario": name, "n_workers": 1}
        calls, w0 = H.count_calls(base)
        ref = None
        two = name.startswith("two-conns")
        if two:
            # reference byte stream of connection B when it is alone
            sc = dict(H.SCENARIOS[name])
            sc["scripts"] = {8: sc["scripts"][8]}
            wb = H.make_world({"scenario": sc})
            wb.run()
            ref = {8: wb.socks[8].wire}
        one_run(base, "default", reference=ref)
        pls_all = H.placements(calls, fds={7} if two else None)
        if len(samples) < 4:
            samples.append({"scenario": name, "socket_calls": {str(k): v for k, v in calls.items()},
                            "single_fault_placements": len(pls_all)})
        # every single placement under the default schedule, a sample of them under random / PCT schedules
        for i, pl in enumerate(pls_all):
            case = H.apply_placements(base, [pl])
            note_fault([pl])
            one_run(case, "default", reference=ref, pls=[pl])
            if two:
                # two pool workers: the tail of service() overlaps the next service() of the same channel, which
                # the model serialises (see ASSUMPTIONS): monitor only
                seed = rng.randrange(1 << 30)
                one_run(dict(case, n_workers=2), "random-2workers", policy=RandomPolicy(random.Random(seed), stay=0.5),
                        reference=ref, conform=False, pls=[pl])
            nsch = (6 if thorough else 1)
            for j in range(nsch):
                seed = rng.randrange(1 << 30)
                r = random.Random(seed)
                if j % 2 == 0:
                    one_run(case, "random", policy=RandomPolicy(r, stay=0.5), reference=ref, pls=[pl])
                else:
                    one_run(case, "pct", policy=PCTPolicy(r, 1 + j % 3, 80), reference=ref, pls=[pl])
        # pairs of placements
        npairs = (400 if thorough else 12)
        if len(pls_all) >= 2:
            for _ in range(npairs):
                a, b = rng.sample(pls_all, 2)
                if (a[0], a[1], a[2]) == (b[0], b[1], b[2]):
                    continue
                case = H.apply_placements(base, [a, b])
                note_fault([a, b])
                seed = rng.randrange(1 << 30)
                pol = RandomPolicy(random.Random(seed), stay=0.5) if seed % 2 else PCTPolicy(random.Random(seed), 2, 80)
                one_run(case, "random" if seed % 2 else "pct", policy=pol, reference=ref, pls=[a, b])

    # errno sweep: EVERY errno the platform knows (errno.errorcode), once per kind of call -- a send() made by a worker
    # (write_soon's flush, do_close=False), a send() made by the I/O thread, a recv().  The model's classes (disconnect /
    # would-block / anything else) are fixed in the harness from the model, so an errno that changes class in the source
    # is a concrete disagreement (scenario + placement + schedule), not only a changed audit signature.
    stats["errno_sweep_runs"] = 0
    for scn, what, ks in (("worker-flush", "send", (0, 2)), ("get-close", "send", (0,)), ("get-close", "recv", (0, 1))):
        base = {"scenario": scn, "n_workers": 1}
        for i, e in enumerate(H.ALL_ERRNOS):
            if e in H.FAULT_ERRNOS:
                continue          # part of the exhaustive placements above
            for k in (ks if thorough else (ks[i % len(ks)],)):
                pl = (7, what, k, e)
                note_fault([pl])
                stats["errno_sweep_runs"] += 1
                one_run(H.apply_placements(base, [pl]), "errno-sweep", pls=[pl])

    # exceptional conditions answered by getsockopt(SO_ERROR)
    for plan in ([0], [errno.ECONNRESET], [["err", errno.EBADF]], [["err", errno.EINVAL]]):
        for up in (False, True):
            one_run({"scenario": "oob", "soerr_plans": {"7": plan}, "use_poll": up}, "default")

    # bounded exhaustive exploration of the F18 scenario (and of a reset in mid-response)
    exh = {"runs": 0, "truncated": False}
    for case, maxp, limit in (
            (H.apply_placements({"scenario": "get-expect-pipelined"}, [(7, "send", 2, errno.EPIPE)]), 2 if thorough else 1,
             4000 if thorough else 250),
            (H.apply_placements({"scenario": "get-close"}, [(7, "send", 1, errno.ECONNRESET)]), 2, 1500 if thorough else 150)):
        def run_case(prefix, case=case):
            w, _ = one_run(case, "exhaustive", schedule=prefix, conform=(len(prefix) % 3 == 0),
                           pls=[("x",)])
            return w.sched
        r = explore(run_case, maxp, limit=limit)
        exh["runs"] += r["runs"]
        exh["truncated"] = exh["truncated"] or r["truncated"]

    # regression input: the schedule on which F18 killed the I/O loop before its repair, and random schedules of that case
    one_run(H.F18_LOOP_DEATH_CASE, "stored", schedule=H.F18_LOOP_DEATH_SCHEDULE, pls=[("f18",)])
    for _ in range(300 if thorough else 40):
        one_run(H.F18_LOOP_DEATH_CASE, "random", policy=RandomPolicy(random.Random(rng.randrange(1 << 30)), stay=0.6),
                pls=[("f18",)])

    # ---- the listener world -----------------------------------------------------------
    lst_ok = [True]

    def listener_run(steps, tag, family="inet", lse=True, logging_on=False, must_serve=()):
        w = H.ListenerWorld(H.simple_app({}), steps, adj_kw=dict(H.ADJ0), family=family, log_socket_errors=lse,
                            logging_on=logging_on)
        toks, exps = w.run()
        stats["listener_runs"] += 1
        stats["listener_families"][family] = stats["listener_families"].get(family, 0) + 1
        stats["listener_log_records_formatted"] += w.log_records
        stats["listener_log_format_errors"] += w.log_format_errors
        js = [[(x.hex() if isinstance(x, (bytes, bytearray)) else x) for x in st] for st in steps]
        replay = {"world": "listener", "steps": js, "family": family, "log_socket_errors": lse, "logging_on": logging_on,
                  "must_serve": list(must_serve), "failing_input_found": True}
        ans = runner.query([H.run_line_listener(w, toks, wc_close, init_guarded)])[0] if toks else ""
        d = H.compare_listener(toks, exps, ans) if toks else None
        stats["tokens"] += len(toks)
        if d is not None:
            conform_ok[0] = False
            stats["conform_bad"] += 1
            ctx.report("conform-l:" + hashlib.sha1(d.encode()).hexdigest()[:8], "model and implementation disagree (listener world): " + d,
                       dict(replay, expected="the model's labels and state", observed=d, check="conformance"))
        problems, setup_fault = H.listener_monitor(w, exps, must_serve)
        nontrivial.add(("listener", tag, family, lse, hashlib.sha1(repr(toks).encode()).hexdigest()[:12]))
        if setup_fault:
            stats["in_f17_class"] += 1
        if problems:
            lst_ok[0] = False
            stats["problems_outside"] += 1
            ctx.report("listener:%s:%s" % (tag, family), "C13 monitor (listener world, %s listener, log_socket_errors=%s): %r" % (
                           family, lse, problems[:3]),
                       dict(replay, expected="listener and trigger stay in the socket map, the loop alive, the next client served",
                            observed=[list(map(str, p)) for p in problems],
                            check="monitor", setup_fault=setup_fault))

    # accept-path faults x listener family / peer-address shape x log_socket_errors x logging enabled: after the fault the
    # listener and the trigger are still polled, the loop is alive and the NEXT client is accepted and served
    setup_calls = ("setsockopt", "getsockopt", "setblocking")

    def setup_fault_run(call, e, fam, lse, lo):
        note_fault([(0, "setup-" + call, 0, e)])
        listener_run([("connect", {call: e}), ("turn",), ("connect", None), ("turn",), ("send", 8, H.GET), ("turn",),
                      ("serve", 8), ("turn",), ("turn",)], "%s/%s" % (call, _errno_name(e)), fam, lse, lo, must_serve=(8,))

    def accept_fault_run(e, fam, lse, lo):
        note_fault([(0, "accept", 0, e)])
        listener_run([("accept_err", e), ("turn",), ("connect", None), ("turn",), ("send", 7, H.GET), ("turn",), ("serve", 7),
                      ("turn",), ("close", 7), ("turn",), ("turn",)], "accept/%s" % _errno_name(e), fam, lse, lo, must_serve=(7,))

    for fam in H.FAMILIES:
        for lse in (True, False):
            for lo in (False, True):
                for call in setup_calls:
                    for e in H.FAULT_ERRNOS:
                        setup_fault_run(call, e, fam, lse, lo)
                for e in H.FAULT_ERRNOS + [errno.EWOULDBLOCK, errno.ECONNABORTED, "typeerror"]:
                    accept_fault_run(e, fam, lse, lo)
    # ... and every errno the platform knows on each of the four calls (families and log settings in rotation)
    fams = list(H.FAMILIES)
    for i, e in enumerate(H.ALL_ERRNOS):
        if e in H.FAULT_ERRNOS:
            continue
        for j, call in enumerate(setup_calls):
            setup_fault_run(call, e, fams[(i + j) % len(fams)], (i + j) % 4 != 3, (i + j) % 2 == 0)
        accept_fault_run(e, fams[(i + 3) % len(fams)], True, i % 2 == 1)
    # two connections, faults on the first while the second is served
    for e in H.FAULT_ERRNOS:
        for what in ("recv", "send", "soerr"):
            plan = ("plan", 7, [["err", e]] if what == "send" else [], {0: e} if what == "recv" else {},
                    [["err", e]] if what == "soerr" else [])
            note_fault([(7, what, 0, e)])
            listener_run([("connect", None), ("connect", None), ("turn",), ("turn",), ("send", 7, H.GET + H.POSTH), ("send", 8, H.GET),
                          ("turn",), plan, ("oob", 7) if what == "soerr" else ("turn",), ("serve", 7), ("serve", 8), ("turn",), ("turn",),
                          ("close", 8), ("turn",), ("turn",)], "two/%s/%s" % (what, _errno_name(e)),
                         fams[stats["listener_runs"] % len(fams)], True, stats["listener_runs"] % 2 == 0, must_serve=(8,))
    nl = 300 if thorough else 40
    for _ in range(nl):
        steps = []
        nconn = 0
        for _ in range(rng.randint(4, 12)):
            c = rng.random()
            if c < 0.2 and nconn < 2:
                f = None
                if rng.random() < 0.35:
                    f = {rng.choice(setup_calls): rng.choice(H.FAULT_ERRNOS if rng.random() < 0.6 else H.ALL_ERRNOS)}
                steps.append(("connect", f))
                nconn += 1
            elif c < 0.27:
                steps.append(("accept_err", rng.choice(H.FAULT_ERRNOS + [errno.EWOULDBLOCK])))
            elif c < 0.45 and nconn:
                steps.append(("send", rng.choice([7, 8][:nconn]), rng.choice([H.GET, H.GET + H.POSTH, H.POSTH, H.BAD, H.GETCLOSE])))
            elif c < 0.52 and nconn:
                steps.append(("close", rng.choice([7, 8][:nconn])))
            elif c < 0.62 and nconn:
                fd = rng.choice([7, 8][:nconn])
                e = rng.choice(H.FAULT_ERRNOS)
                steps.append(("plan", fd, rng.choice([[], [["err", e]], [3], [None, ["err", e]]]),
                              rng.choice([{}, {0: e}]), rng.choice([[], [e], [["err", e]]])))
            elif c < 0.66 and nconn:
                steps.append(("oob", rng.choice([7, 8][:nconn])))
            elif c < 0.8 and nconn:
                steps.append(("serve", rng.choice([7, 8][:nconn])))
            else:
                steps.append(("turn",))
        steps += [("turn",), ("turn",)]
        listener_run(steps, "random", rng.choice(fams), rng.random() < 0.75, rng.random() < 0.5)

    # ---- the model's own explorer --------------------------------------------------------
    maxs = 400000 if thorough else 60000
    ex_lines = runner.query(["explore 0 1 100 1000 0%d%d %d 1" % (1 if wc_close else 0, 1 if init_guarded else 0, maxs),
                             "explore 1 1 2 3 1%d%d %d 1" % (1 if wc_close else 0, 1 if init_guarded else 0, maxs // 2)], timeout=1200)
    ex = []
    for l in ex_lines:
        d = {}
        for part in l.split(" "):
            k, _, v = part.partition("=")
            d[k] = v
        ex.append(d)
    outside = sum(int(d.get("%s_bad_outside" % n, "1")) for d in ex for n in ("loop", "workers", "listener", "once"))
    outside += sum(int(d.get("%s_bad_in_class" % n, "1")) for d in ex for n in ("loop", "workers", "listener", "once"))
    ctx.oblige("model explorer (configuration read from the source): no bad state", outside == 0, json.dumps(ex)[:600])
    if outside:
        wit = [d.get("%s_witness_%s" % (n, k)) for d in ex for n in ("loop", "workers", "listener", "once")
               for k in ("outside", "in_class") if d.get("%s_witness_%s" % (n, k))]
        ctx.report("explorer-bad", "the model's explorer reaches a bad state in the configuration the source has",
                   {"failing_input_found": True, "world": "model", "witness_tokens": wit[:2]})

    # ---- obligations -------------------------------------------------------------------------
    ctx.oblige("K-chanfault: every scheduling block of every real run is a step sequence of the model with the same labels and abstract state",
               conform_ok[0], "%d disagreements" % stats["conform_bad"])
    ctx.oblige("C13 monitor on the real traces: no problem (scheduler world)", monitor_ok[0])
    ctx.oblige("C13 monitor on the real traces: listener and trigger stay polled (listener world)", lst_ok[0])
    ctx.oblige("the search exercises the repaired paths (worker-side send_continue; errno in HTTPChannel.__init__)",
               stats["in_f18_class"] > 0 and stats["in_f17_class"] > 0,
               "runs with worker-side send_continue: %d, listener runs with a set-up fault: %d" % (stats["in_f18_class"], stats["in_f17_class"]))

    if not props_ok and not ctx.violations:
        ctx.report("c13-proof-broken", "Props/C13.v no longer checks (%s)" % failing,
                   {"failing_input_found": False, "broken": "Props/C13.v via %s" % failing, "log_tail": (log or "")[-1500:]})

    ctx.coverage.update({
        "evaluations": stats["runs"] + stats["listener_runs"],
        "distinct_nontrivial": len(nontrivial),
        "rule": "scheduler world: %d scenarios (1-2 connections, 1-2 requests, pipelined / expecting / pending output / app failure / OOB / HUP) x "
                "every single fault placement (6 errno kinds + partial send on every recv/send call of the fault-free run) under the default schedule "
                "and %s seeded random/PCT schedule(s), %s sampled pairs of placements per scenario, bounded exhaustive exploration (iterative "
                "pre-emption bounding) of two faulted scenarios, plus an errno sweep: every errno of errno.errorcode on a worker-side send, an "
                "I/O-side send and a recv; listener world: {6 fixed errnos on setsockopt / getsockopt(SO_SNDBUF) / setblocking, 9 outcomes "
                "of accept incl. EWOULDBLOCK / ECONNABORTED / TypeError} x 6 listener families and peer-address shapes (AF_INET 2-tuple, "
                "AF_INET6 4-tuple, AF_UNIX '' / None / path / bytes) x log_socket_errors on/off x logging disabled / enabled with a "
                "formatting handler, each followed by a healthy client that must be accepted and served; every errno of errno.errorcode "
                "on each of the four calls (families in rotation); faults on one of two connections, seeded random event histories over "
                "random families. Non-trivial = distinct (scenario, placement, "
                "schedule kind, teardown/wire event sequence) with a fault placed or a teardown observed" % (
                    len(names), "6" if thorough else "1", "400" if thorough else "12"),
        "samples": samples,
        "traces_validated_against_impl": stats["runs"] + stats["listener_runs"] - stats["conform_bad"],
        "model_steps_validated": stats["tokens"],
        "states": sum(int(d.get("states", 0)) for d in ex),
        "transitions": sum(int(d.get("transitions", 0)) for d in ex),
        "explorer": ex_lines and [l[:300] for l in ex_lines],
        "exhaustive_schedules": exh,
        "fault_kinds": stats["fault_kinds"],
        "schedule_kinds": stats["sched_kinds"],
        "scenarios": stats["scenarios"],
        "verdicts": stats["verdicts"],
        "runs_with_handle_close_entered_twice_on_io_thread": stats.get("double_handle_close_on_io", 0),
        "runs_with_worker_side_send_continue": stats["in_f18_class"],
        "listener_runs_with_setup_fault": stats["in_f17_class"],
        "listener_runs": stats["listener_runs"],
        "listener_families": stats["listener_families"],
        "listener_log_records_formatted": stats["listener_log_records_formatted"],
        "listener_log_format_errors_swallowed_by_logging": stats["listener_log_format_errors"],
        "errno_sweep_runs": stats["errno_sweep_runs"],
        "errnos_injected": len(H.ALL_ERRNOS),
        "wc_close_read_from_source": wc_close,
        "init_guarded_read_from_source": init_guarded,
        "shape_digest": H.shape_digest(sig),
    })


def src_dir_of():
    return vcommon.SRC


def replay(data):
    from harness import chanfault as H
    if data.get("world") == "listener":
        steps = []
        for st in data["steps"]:
            st = list(st)
            if st[0] == "send":
                st[2] = bytes.fromhex(st[2])
            if st[0] == "connect" and st[1] is not None:
                st[1] = {k: int(v) for k, v in st[1].items()}
            if st[0] == "plan":
                st[3] = {int(k): v for k, v in (st[3] or {}).items()}
            steps.append(tuple(st))
        w = H.ListenerWorld(H.simple_app({}), steps, adj_kw=dict(H.ADJ0), family=data.get("family", "inet"),
                            log_socket_errors=data.get("log_socket_errors", True), logging_on=data.get("logging_on", False))
        toks, exps = w.run()
        problems, setup_fault = H.listener_monitor(w, exps, data.get("must_serve") or ())
        print("listener world (%s listener, log_socket_errors=%s): tokens=%r\nproblems now: %r (set-up fault present: %s)\nexpected: %s" % (
            w.family, data.get("log_socket_errors", True), toks, problems, setup_fault, data.get("expected")))
        return 1 if problems else 0
    if data.get("world") == "fault":
        w = H.make_world(data["case"], schedule=data.get("choices") or ())
        w.run()
        ref = None
        problems, wcont = H.monitor(w, ref)
        for e in w.sched.events:
            if e[1] in ("hclose", "bufs_closed", "map_del", "act_del", "close", "send_continue", "io_loop_died", "select_ebadf", "crash"):
                print("  ", e)
        print("scheduler world: verdict=%s worker-side send_continue=%s\nproblems now: %r\nexpected: %s" % (
            w.verdict, wcont, problems, data.get("expected")))
        if data.get("check") == "conformance":
            runner = vcommon.Runner(os.path.join(vcommon.VERIF, "ocaml", "chanfault", "runner"))
            toks, exps = H.tokens(w)
            d = H.compare(w, toks, exps, runner.query([H.run_line(w, toks, len(w.socks), H.detect_wc_close(vcommon.SRC),
                                                               H.detect_init_guarded(vcommon.SRC))])[0])
            print("conformance now:", d)
            return 1 if d else 0
        return 1 if problems else 0
    print("nothing to replay:", json.dumps(data)[:300])
    return 1
