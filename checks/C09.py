"""C09 -- application failures are contained and the iterable is always closed.

Decided by: theorems in Props/C09.v over Model/Task.v (WSGITask.execute's
try/finally, Task.service's `except OSError`, HTTPChannel.service's ladder,
handler_thread's catch-all) for all scripts, fault placements, disconnect
positions and settings.  Tied to the code by K-task with an exception of each
class injected at every script step (call, start_response, every iteration,
write, close) x client disconnect at every write_soon x expose_tracebacks x
log_socket_errors, run under the REAL worker loop, and by a model-free search
on what the real code did."""
import json

from harness import task as T
from lib import vcommon
from lib.vcommon import hexb

LEVEL = "proof"
ASSUMPTIONS = [
    "applications are scripts of WSGI-visible actions; an exception is a value of one of three classes (Exception subclass, OSError subclass, BaseException subclass that is not an Exception) or one of the builtin classes the server itself raises",
    "the worker is the loop of ThreadedTaskDispatcher.handler_thread run in the checking thread; real thread death / KeyboardInterrupt delivery semantics are not modelled",
    "the file handed over through wsgi.file_wrapper is closed by the channel (handle_close / _flush_some): checked on the real channel by tearing the connection down, modelled only as 'handed over'",
    "traceback text is an opaque marker returned by a patched traceback.format_exc",
]


def reference_500(case, cache):
    key = json.dumps([case["cfg"], case["req"]["version"], case["req"]["conn"]], sort_keys=True)
    if key not in cache:
        ref = T.mk_case([["R", "XE"]])
        ref["cfg"] = case["cfg"]
        ref["req"] = dict(case["req"])
        ref["req"]["err"] = None
        ref["req"]["head"] = False
        real, _ = T.run_real(ref)
        cache[key] = T.wire_of(real)
    return cache[key]


def judge(case, real, extra, cache):
    """C09's statement on what the real code did -> list of (what, expected, observed, kf_class)"""
    out = []
    app = case["app"]
    wire = T.wire_of(real)
    raised = [tuple(x) for x in extra["raised"]]
    nwrites = 0 if real["w"] == "none" else len(real["w"].split(","))
    if extra["worker_died"]:
        out.append(("the worker loop died", "survives", extra["worker_died"], None))
    # close() exactly once
    has_close = app["has_close"] or app["kind"][0] == "file"
    if extra["got_iterable"] and has_close:
        if real["hand"] == "1":
            if real["closes"] != "0":
                out.append(("file handed over to the channel but also closed by the task", "0", real["closes"], None))
            if extra.get("late_closes") != 1 or extra.get("file_closed_after_teardown") != 1:
                out.append(("handed-over file not closed exactly once at teardown", "1",
                            "%s/%s" % (extra.get("late_closes"), extra.get("file_closed_after_teardown")), None))
        elif real["closes"] != "1":
            out.append(("close() of the iterable not called exactly once", "1", real["closes"], None))
    elif real["closes"] != "0":
        out.append(("close() called without an iterable", "0", real["closes"], None))
    # traceback exposure
    if T.TB_MARK.encode() in wire and not case["cfg"]["expose"]:
        out.append(("traceback text on the wire without expose_tracebacks", "absent", "present", None))
    if case["req"]["err"] is not None:
        if real["esc"] != "none":
            out.append(("exception escaped service()", "none", real["esc"], None))
        return out
    first = raised[0] if raised else None
    # nothing escapes the ladder (whatever the exception class)
    if real["esc"] != "none":
        out.append(("exception escaped HTTPChannel.service(): no close decision, request never popped",
                    "none", real["esc"], None))
        return out
    if first is None or first[0] == "CD":
        # no application failure (or the application itself raised ClientDisconnected: treated as a disconnect)
        if case["disc"] is not None and real["close"] != "1" and first is None and real["nws1"] != str(nwrites):
            out.append(("client disconnected in mid-response but the connection is not closed", "close", "keep", None))
        return out
    name, writes_then = first
    if writes_then == 0:
        # fault before any output: one complete 500, then close
        want = reference_500(case, cache)
        if case["disc"] is None:
            if wire != want:
                out.append(("failure before any output did not produce the complete 500", repr(want[:60]), repr(wire[:60]), None))
        if real["close"] != "1":
            out.append(("failure before any output but the connection is kept", "close", "keep", None))
    else:
        # fault after output began: closed, no further bytes
        if real["close"] != "1":
            out.append(("failure after output began but the connection is kept", "close", "keep", None))
        if nwrites != writes_then:
            out.append(("bytes written after the failure", str(writes_then), str(nwrites), None))
    return out


def run(ctx):
    ctx.translate({"GenTables"})
    ctx.gate()
    props_ok, failing, log = ctx.props()
    ctx.build(["Model/Task.vo", "Spec/ClientParse.vo"])
    runner = ctx.runner("task", "ExtTask.v")
    if runner is None:
        # the model cannot be built (translator refused the source, or a proof file broke):
        # the model-free search below still runs on the real code to find a concrete failing input
        ctx.oblige("extracted task runner builds", False, "see notes")
    rng = ctx.rng
    table = T.decision_table()
    step = 5 if ctx.tier == "quick" else 1
    cases = T.fault_cases(rng, ctx.tier) + T.random_cases(rng, ctx.tier) + [table[i] for i in range(0, len(table), step)]
    answers = runner.query([T.ser_case(c) for _, c in cases]) if runner is not None else [None] * len(cases)
    agree = True
    search_ok = True
    cache = {}
    nontrivial = set()
    dist = {"500": 0, "closed after output": 0, "disconnect": 0, "escaped": 0, "completed": 0, "raised before output, no 500 (ClientDisconnected or client gone)": 0}
    by_class = {}
    samples = []
    for i, ((tag, case), ans) in enumerate(zip(cases, answers)):
        real, extra = T.run_real(case)
        d = T.compare(case, ans, real) if ans is not None else None
        if d is not None:
            agree = False
            ctx.report("k-task:" + json.dumps(tag)[:80], "model and implementation disagree (%s): %s" % (tag, d[:300]),
                       {"kind": "k-task", "case": case, "expected": T.parse_model_line(ans), "observed": real,
                        "failing_input_found": True})
        for what, exp, obs, kf in judge(case, real, extra, cache):
            if kf is None:
                search_ok = False
            ctx.report("search:%s:%s:%s" % (kf, what[:40], json.dumps(tag)[:60]), "C09 fails on the real code (%s): %s" % (tag, what),
                       {"kind": "search", "case": case, "expected": exp, "observed": obs, "what": what,
                        "failing_input_found": True}, kf_class=kf)
        raised = extra["raised"]
        if real["esc"] != "none":
            dist["escaped"] += 1
        elif real["s500"] == "1":
            dist["500"] += 1
        elif raised and raised[0][1] > 0:
            dist["closed after output"] += 1
        elif raised:
            dist["raised before output, no 500 (ClientDisconnected or client gone)"] += 1
        elif case["disc"] is not None:
            dist["disconnect"] += 1
        else:
            dist["completed"] += 1
        if raised:
            by_class[raised[0][0]] = by_class.get(raised[0][0], 0) + 1
            nontrivial.add((tag[1] if len(tag) > 1 else "", tag[2] if len(tag) > 2 else "", raised[0][0], raised[0][1],
                            real["close"], real["closes"], real["esc"], real["s500"], str(case["disc"])))
        if len(samples) < 6 and i % 1499 == 0:
            samples.append({"tag": list(map(str, tag)), "result": real, "raised": raised})
    ctx.oblige("K-task: extracted model agrees with the real task/channel/worker loop under fault injection at every step", agree)
    ctx.oblige("search: on the real code close() is called exactly once, a failure before output gives the complete 500 and close, a failure after output closes without further bytes, nothing escapes, no traceback unless exposed (outside open known-finding classes)", search_ok)

    if not props_ok and not ctx.violations:
        ctx.report("c09-proof-broken", "Props/C09.v no longer checks (%s)" % failing,
                   {"failing_input_found": False, "broken": "Props/C09.v via %s" % failing, "log_tail": (log or "")[-1500:]})

    ctx.coverage.update({
        "evaluations": len(cases),
        "distinct_nontrivial": len(nontrivial),
        "rule": "non-trivial = distinct (script shape, fault position, exception class, writes before the fault, close decision, close() count, escaped, 500 served, disconnect position) among runs in which the scripted application raised",
        "samples": samples,
        "outcome_distribution": dist,
        "first_exception_class_distribution": by_class,
    })


def replay(data):
    case = data["case"]
    real, extra = T.run_real(case)
    if data.get("kind") == "search":
        v = judge(case, real, extra, {})
        print("result now:", real, extra.get("raised"))
        print("search on the real code now:", v)
        return 0 if not v else 1
    print("observed now:", real)
    print("expected    :", data.get("expected"))
    exp = data.get("expected") or {}
    return 0 if all(exp.get(f) == real[f] for f in T.FIELDS) else 1
