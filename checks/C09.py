"""C09 -- application failures are contained and the iterable is always closed.

Decided by: theorems in Props/C09.v over Model/Task.v (WSGITask.execute's
try/finally, Task.service's `except OSError`, HTTPChannel.service's ladder,
handler_thread's catch-all) for all scripts, fault placements, disconnect
positions and settings.  Tied to the code by K-task with an exception of each
class injected at every script step (call, start_response, every iteration,
write, close) x client disconnect at every write_soon x expose_tracebacks x
log_socket_errors, run under the REAL worker loop, and by a model-free search
on what the real code did.

The hand-over clause ("a file handed over through wsgi.file_wrapper is closed
once its data has been sent or the connection is torn down") is an
INTERLEAVING property of the worker (WSGITask.execute -> write_soon(<file>))
and the I/O thread (handle_close / _flush_some): it is searched by
harness/task_conc.py on the real HTTPChannel + WSGITask + dispatcher +
wasyncore.poll under the deterministic scheduler (default, seeded random, PCT
with 1-3 pre-emptions, lock and attribute granularity, bounded exhaustive
exploration of the tiniest scenarios) with the close-count monitor at
quiescence; a failing run is replayed by (scenario, choices)."""
import json

from harness import task as T
from lib import vcommon
from lib.vcommon import hexb

LEVEL = "proof"
ASSUMPTIONS = [
    "applications are scripts of WSGI-visible actions; an exception is a value of one of three classes (Exception subclass, OSError subclass, BaseException subclass that is not an Exception) or one of the builtin classes the server itself raises",
    "the worker is the loop of ThreadedTaskDispatcher.handler_thread run in the checking thread; real thread death / KeyboardInterrupt delivery semantics are not modelled",
    "the file handed over through wsgi.file_wrapper is closed by the channel (handle_close / _flush_some): modelled only as 'handed over'; on the real channel it is checked sequentially by tearing the connection down (K-task) and concurrently by the schedule search of harness/task_conc.py (sampled + bounded-exhaustive schedules, not all)",
    "traceback text is an opaque marker returned by a patched traceback.format_exc",
]


def reference_500(case, cache):
    key = json.dumps([case["cfg"], case["req"]["version"], case["req"]["conn"]], sort_keys=True)
    if key not in cache:
        ref = T.mk_case([["R", "XE"]])
        ref["cfg"] = case["cfg"]
        ref["req"] = dict(case["req"])
        ref["req"]["err"] = None
        ref["req"]["head"] = False
        real, _ = T.run_real(ref)
        cache[key] = T.wire_of(real)
    return cache[key]


def judge(case, real, extra, cache):
    """C09's statement on what the real code did -> list of (what, expected, observed, kf_class)"""
    out = []
    app = case["app"]
    wire = T.wire_of(real)
    raised = [tuple(x) for x in extra["raised"]]
    nwrites = 0 if real["w"] == "none" else len(real["w"].split(","))
    if extra["worker_died"]:
        out.append(("the worker loop died", "survives", extra["worker_died"], None))
    # close() exactly once
    has_close = app["has_close"] or app["kind"][0] == "file"
    if extra["got_iterable"] and has_close:
        if real["hand"] == "1":
            if real["closes"] != "0":
                out.append(("file handed over to the channel but also closed by the task", "0", real["closes"], None))
            if extra.get("late_closes") != 1 or extra.get("file_closed_after_teardown") != 1:
                out.append(("handed-over file not closed exactly once at teardown", "1",
                            "%s/%s" % (extra.get("late_closes"), extra.get("file_closed_after_teardown")), None))
        elif real["closes"] != "1":
            out.append(("close() of the iterable not called exactly once", "1", real["closes"], None))
    elif real["closes"] != "0":
        out.append(("close() called without an iterable", "0", real["closes"], None))
    # a partially received next request waits for "100 Continue": once the connection is marked for closing
    # (application failure, Connection: close, ...) NOTHING more may be written, no interim response either
    if case.get("pending_continue"):
        from lib.vcommon import unhexb
        flushed = unhexb(extra["flushed_by_service"]) if extra.get("flushed_by_service") else b""
        if real["close"] == "1" and (extra.get("sent_continue") or flushed not in (b"", wire)):
            out.append(("bytes written after the close decision: a deferred '100 Continue' was sent to the next request",
                        "nothing after the response", repr(flushed[-40:]), None))
        if real["close"] != "1" and real["esc"] == "none" and flushed not in (b"", wire, wire + b"HTTP/1.1 100 Continue\r\n\r\n"):
            out.append(("bytes on the wire that are neither the response nor the deferred 100 Continue", "response [+ 100 Continue]",
                        repr(flushed[-60:]), None))
    # a file wrapper is never handed over after a 1xx/204/304 status (fix d117733): the task iterates it
    # (write() drops every block) and closes it itself -- covered by the close-once test above once
    # hand-over is excluded
    starts = [a for a in T.actions_of(case) if a[0] == "S"]
    if (real["hand"] == "1" and len(starts) == 1 and isinstance(starts[0][1], str)
            and (starts[0][1].startswith("1") or starts[0][1].startswith("204") or starts[0][1].startswith("304"))):
        out.append(("file wrapper handed over to the channel after a 1xx/204/304 status", "closed by the task", "handed over", None))
    # traceback exposure (the traceback text is a generated input: the marker, or any text of >= 8
    # characters found in what follows the head once the innocent 500 body is taken out; shorter texts
    # are covered by the exact comparison of the 500's body below)
    try:
        (case["cfg"]["ident"] or "server").encode("latin-1")
    except UnicodeEncodeError:
        # no response head can be built at all (the Server field cannot be encoded), the ladder's 500
        # included: what is left of the property is containment -- nothing escapes service(), the
        # connection is wound up (marked for closing, requests cleared), the iterable closed once (above)
        if real["esc"] != "none":
            out.append(("exception escaped HTTPChannel.service() (no head can be built: ident is not latin-1): no close decision, request never popped",
                        "none", real["esc"], None))
        elif real["close"] != "1":
            out.append(("no head can be built (ident is not latin-1) and the connection is not marked for closing", "close", "keep", None))
        return out
    tbtext = case["cfg"]["tb"]
    if not case["cfg"]["expose"]:
        k = wire.find(b"\r\n\r\n")
        after_head = wire[k + 4:] if k >= 0 else b""
        innocent = T.expected_error_body(case) if case["req"]["err"] is None else b""
        rest = after_head.replace(innocent, b"") if innocent else after_head
        if T.TB_MARK.encode() in wire or (len(tbtext) >= 8 and case["req"]["err"] is None
                                          and tbtext.encode("utf-8", "replace") in rest):
            out.append(("traceback text on the wire without expose_tracebacks", "absent", "present", None))
    if case["req"]["err"] is not None:
        if real["esc"] != "none":
            out.append(("exception escaped service()", "none", real["esc"], None))
        return out
    first = raised[0] if raised else None
    # nothing escapes the ladder (whatever the exception class)
    if real["esc"] != "none":
        out.append(("exception escaped HTTPChannel.service(): no close decision, request never popped",
                    "none", real["esc"], None))
        return out
    if first is None or first[0] == "CD":
        # no application failure (or the application itself raised ClientDisconnected: treated as a disconnect)
        if case["disc"] is not None and real["close"] != "1" and first is None and real["nws1"] != str(nwrites):
            out.append(("client disconnected in mid-response but the connection is not closed", "close", "keep", None))
        return out
    name, writes_then = first
    if writes_then == 0:
        # fault before any output: one complete 500, then close
        want = reference_500(case, cache)
        # ... and independently of any run of the server: exactly one complete 500 whose body is
        # Error.to_response's text for THIS traceback text / ident, whatever characters they contain
        # ('%', '{}', CR/LF, NUL, non-latin-1 ...), Content-Length = its UTF-8 length
        if case["disc"] is None:
            ebody = T.expected_error_body(case)
            version = case["req"]["version"] if case["req"]["version"] in ("1.0", "1.1") else "1.0"
            i = wire.find(b"\r\n\r\n")
            head_b, body_b = (wire[:i + 4], wire[i + 4:]) if i >= 0 else (wire, b"")
            if not wire.startswith(("HTTP/%s 500 Internal Server Error\r\n" % version).encode()):
                out.append(("failure before any output: no 500 status line", "HTTP/%s 500 Internal Server Error" % version,
                            repr(wire[:60]), None))
            elif ("\r\nContent-Length: %d\r\n" % len(ebody)).encode() not in head_b:
                out.append(("failure before any output: the 500 does not announce the length of Error.to_response's body",
                            "Content-Length: %d" % len(ebody), repr(head_b[:200]), None))
            elif body_b != (b"" if case["req"]["head"] else ebody):
                out.append(("failure before any output: the 500's body is not Error.to_response's text",
                            repr(ebody[:80]), repr(body_b[:80]), None))
        if case["req"]["head"]:
            # the 500 to a HEAD request is the head of that 500, Content-Length included, without
            # the body (fix 52947ac: the ladder's err_request inherits the command)
            want = want[:want.index(b"\r\n\r\n") + 4]
        if case["disc"] is None:
            if wire != want:
                out.append(("failure before any output did not produce the complete 500", repr(want[:60]), repr(wire[:60]), None))
        if real["close"] != "1":
            out.append(("failure before any output but the connection is kept", "close", "keep", None))
    else:
        # fault after output began: closed, no further bytes
        if real["close"] != "1":
            out.append(("failure after output began but the connection is kept", "close", "keep", None))
        if nwrites != writes_then:
            out.append(("bytes written after the failure", str(writes_then), str(nwrites), None))
    return out


def conc_search(ctx):
    """The concurrent hand-over search (harness/task_conc.py).  -> (ok, evidence dict)"""
    import hashlib
    import random
    import time
    from harness import task_conc as C
    thorough = ctx.tier == "thorough"
    rng = random.Random(ctx.rng.getrandbits(48))
    t0 = time.time()
    budget = 300.0 if thorough else 21.0
    st = {"runs": 0, "quiescent": 0, "overrun": 0, "handovers": 0, "race_window_runs": 0, "write_soon_file_raised_ClientDisconnected": 0,
          "repeated_teardown_closes": 0, "violating_runs": 0, "forced_fair_switches": 0}
    sites, kinds, discs, policies, grans, verdicts, viol_pol = {}, {}, {}, {}, {}, {}, {}
    traces = set()
    best = {}      # violation key -> smallest replay
    counts = {}
    samples = []

    def one(name, scn, schedule=(), policy=None, pk="default"):
        w = C.run_world(scn, schedule=schedule, policy=policy)
        st["runs"] += 1
        verdicts[w.verdict] = verdicts.get(w.verdict, 0) + 1
        policies[pk] = policies.get(pk, 0) + 1
        grans[scn.granularity] = grans.get(scn.granularity, 0) + 1
        discs[scn.disc] = discs.get(scn.disc, 0) + 1
        traces.add(C.trace_hash(w))
        st["forced_fair_switches"] += getattr(w.sched.policy, "forced", 0)
        if w.verdict == "overrun":
            st["overrun"] += 1
            return w, []
        st["quiescent"] += 1
        s = C.stats_of(w)
        st["handovers"] += s["handed"]
        st["race_window_runs"] += s["window"]
        st["write_soon_file_raised_ClientDisconnected"] += s["raised_cd"]
        st["repeated_teardown_closes"] += s["repeated_teardown"]
        for k in s["objects"]:
            kinds[k] = kinds.get(k, 0) + 1
        for k, v in s["sites"].items():
            sites[k] = sites.get(k, 0) + v
        bad = C.monitor(w)
        if bad:
            st["violating_runs"] += 1
            viol_pol[pk] = viol_pol.get(pk, 0) + 1
        for key, text in bad:
            counts[key] = counts.get(key, 0) + 1
            rep = {"kind": "conc", "scenario_name": name, "scenario": scn.to_json(), "choices": list(w.sched.choices),
                   "policy": pk, "what": text,
                   "expected": "at quiescence every object the application returned is closed exactly once: iterables and "
                               "non-seekable files by WSGITask.execute's finally, a handed-over file by the channel when it is "
                               "drained (_flush_some) or torn down (handle_close); channel out of the map after a disconnect; "
                               "no worker parked",
                   "observed": {"violations": [list(b) for b in bad], "objects": w.end["objs"], "final": {k: v for k, v in w.final.items() if k != "blocked"},
                                "blocked": [list(map(str, b)) for b in w.end["blocked"]]},
                   "failing_input_found": True}
            size = (len(json.dumps(rep["scenario"])), len(rep["choices"]))
            if key not in best or size < best[key][0]:
                best[key] = (size, rep)
        return w, bad

    def schedules(name, scn, k):
        w, _ = one(name, scn)
        est = max(20, len(w.sched.choices))
        if len(samples) < 5 and w.end is not None and len(samples) < 5 and (len(samples) == 0 or st["runs"] % 7 == 0):
            samples.append({"concurrent_scenario": name, "policy": "default", "verdict": w.verdict, "steps": len(w.sched.choices),
                            "wire_bytes": len(w.wire), "objects": [{kk: o[kk] for kk in ("path", "kind", "handed", "closes", "sites", "queued")} for o in w.end["objs"]],
                            "client_script": [s[0] if s[0] != "wait_wire" else "wait_wire %d" % s[1] for s in scn.script],
                            "connected": w.final["connected"], "in_map": w.final["in_map"]})
        for i in range(k):
            r = random.Random(rng.getrandbits(48))
            g = scn.with_granularity("attrs") if i % 3 == 2 else scn
            e = est * (3 if g.granularity == "attrs" and scn.granularity != "attrs" else 1)
            if i % 2:
                d = 1 + (i // 2) % 3
                one(name, g, policy=C.PCTPolicy(r, d, e), pk="pct%d" % d)
            else:
                one(name, g, policy=C.RandomPolicy(r, stay=r.choice([0.0, 0.5, 0.9, 0.97])), pk="random")

    # 1. directed scenarios x (default, random, PCT 1-3) x (locks, attrs)
    for name, scn in C.directed_scenarios():
        schedules(name, scn, 24 if thorough else 9)
    # 2. bounded exhaustive exploration of the tiniest hand-over scenarios (iterative pre-emption bounding)
    ex = {}
    quick_plan = {"tiny-file-before-head": (("locks", 2, 200), ("attrs", 1, 360)), "tiny-file-between": (("locks", 2, 200),),
                  "tiny-file-gated": (("locks", 2, 200), ("attrs", 1, 260))}
    for name, scn in C.tiny_scenarios():
        for gran, bound, lim in ((("locks", 3, 5000), ("attrs", 2, 3000)) if thorough else quick_plan.get(name, (("locks", 1, 200),))):
            g = scn.with_granularity(gran)

            def run_case(prefix, g=g, name=name):
                w, _ = one(name + "/" + g.granularity, g, schedule=prefix, pk="explore")
                return w.sched
            r = C.explore(run_case, bound, limit=lim)
            lv = r["per_preemption_level"]
            last = max([i for i, n in enumerate(lv) if n > 0] or [0])
            ex["%s/%s" % (name, gran)] = {"max_preemptions": bound, "runs": r["runs"], "per_preemption_level": lv,
                                          "truncated": r["truncated"],
                                          "complete_up_to_preemptions": bound if not r["truncated"] else last - 1}
    # 3. random scenarios under random / PCT schedules until the budget is used
    n_random = 0
    while time.time() - t0 < budget and n_random < (20000 if thorough else 2500):
        r = random.Random(rng.getrandbits(48))
        scn = C.gen_scenario(r)
        name = "random-%d" % n_random
        if n_random % 4 == 0:
            w, _ = one(name, scn)
        elif n_random % 4 == 1:
            one(name, scn, policy=C.PCTPolicy(r, r.randint(1, 3), 120 if scn.granularity == "locks" else 400), pk="pct")
        else:
            one(name, scn, policy=C.RandomPolicy(r, stay=r.choice([0.0, 0.5, 0.9, 0.97])), pk="random")
        n_random += 1
    for key, (_, rep) in sorted(best.items()):
        rep["runs_with_this_violation"] = counts[key]
        ctx.report("conc:" + key, "C09 (concurrent hand-over search) fails on the real code in scenario %s: %s" % (rep["scenario_name"], rep["what"]), rep)
    ok = not best and st["quiescent"] > 0 and st["handovers"] > 0
    ev = dict(st)
    ev.update({"distinct_traces": len(traces), "closes_by_site": sites, "objects_by_kind": kinds, "disconnect_points": discs,
               "policies": policies, "granularity": grans, "verdicts": verdicts, "exploration": ex, "random_scenarios": n_random,
               "violations_by_kind": counts, "violating_runs_by_policy": viol_pol, "wall_s": round(time.time() - t0, 1)})
    return ok, ev, samples


def run(ctx):
    ctx.translate({"GenTables"})
    ctx.gate()
    props_ok, failing, log = ctx.props()
    ctx.build(["Model/Task.vo", "Spec/ClientParse.vo"])
    runner = ctx.runner("task", "ExtTask.v")
    if runner is None:
        # the model cannot be built (translator refused the source, or a proof file broke):
        # the model-free search below still runs on the real code to find a concrete failing input
        ctx.oblige("extracted task runner builds", False, "see notes")
    rng = ctx.rng
    table = T.decision_table()
    step = 5 if ctx.tier == "quick" else 1
    cases = T.fault_cases(rng, ctx.tier) + T.random_cases(rng, ctx.tier) + [table[i] for i in range(0, len(table), step)]
    answers = runner.query([T.ser_case(c) for _, c in cases]) if runner is not None else [None] * len(cases)
    agree = True
    search_ok = True
    cache = {}
    nontrivial = set()
    dist = {"500": 0, "closed after output": 0, "disconnect": 0, "escaped": 0, "completed": 0, "raised before output, no 500 (ClientDisconnected or client gone)": 0}
    by_class = {}
    samples = []
    for i, ((tag, case), ans) in enumerate(zip(cases, answers)):
        real, extra = T.run_real(case)
        d = T.compare(case, ans, real) if ans is not None else None
        if d is not None:
            agree = False
            ctx.report("k-task:" + json.dumps(tag)[:80], "model and implementation disagree (%s): %s" % (tag, d[:300]),
                       {"kind": "k-task", "case": case, "expected": T.parse_model_line(ans), "observed": real,
                        "failing_input_found": True})
        for what, exp, obs, kf in judge(case, real, extra, cache):
            if kf is None:
                search_ok = False
            ctx.report("search:%s:%s:%s" % (kf, what[:40], json.dumps(tag)[:60]), "C09 fails on the real code (%s): %s" % (tag, what),
                       {"kind": "search", "case": case, "expected": exp, "observed": obs, "what": what,
                        "failing_input_found": True}, kf_class=kf)
        raised = extra["raised"]
        if real["esc"] != "none":
            dist["escaped"] += 1
        elif real["s500"] == "1":
            dist["500"] += 1
        elif raised and raised[0][1] > 0:
            dist["closed after output"] += 1
        elif raised:
            dist["raised before output, no 500 (ClientDisconnected or client gone)"] += 1
        elif case["disc"] is not None:
            dist["disconnect"] += 1
        else:
            dist["completed"] += 1
        if raised:
            by_class[raised[0][0]] = by_class.get(raised[0][0], 0) + 1
            nontrivial.add((tag[1] if len(tag) > 1 else "", tag[2] if len(tag) > 2 else "", raised[0][0], raised[0][1],
                            real["close"], real["closes"], real["esc"], real["s500"], str(case["disc"])))
        if len(samples) < 6 and i % 1499 == 0:
            samples.append({"tag": list(map(str, tag)), "result": real, "raised": raised})
    ctx.oblige("K-task: extracted model agrees with the real task/channel/worker loop under fault injection at every step", agree)
    ctx.oblige("search: on the real code close() is called exactly once, a failure before output gives the complete 500 and close, a failure after output closes without further bytes, nothing escapes, no traceback unless exposed (outside open known-finding classes)", search_ok)

    try:
        conc_ok, conc_ev, conc_samples = conc_search(ctx)
    except Exception as e:  # the harness itself broke on this tree: a broken tie, reported as such
        import traceback
        conc_ok, conc_ev, conc_samples = False, {"error": traceback.format_exc()[-900:]}, []
    ctx.oblige("concurrent hand-over search (real channel + task + dispatcher + poll under the deterministic scheduler; %d runs, "
               "%d distinct traces, %d hand-overs, %d runs with the teardown inside write_soon(<file>)'s check-to-lock window): at "
               "quiescence every file / iterable the application returned is closed exactly once by its owner (task: iterables; channel: "
               "handed-over files, when drained or at teardown), the channel is out of the map after a disconnect, no worker is parked"
               % (conc_ev.get("runs", 0), conc_ev.get("distinct_traces", 0), conc_ev.get("handovers", 0), conc_ev.get("race_window_runs", 0)),
               conc_ok, "" if conc_ok else json.dumps(conc_ev.get("violations_by_kind") or conc_ev.get("error") or "no hand-over reached")[:600])

    if not props_ok and not ctx.violations:
        ctx.report("c09-proof-broken", "Props/C09.v no longer checks (%s)" % failing,
                   {"failing_input_found": False, "broken": "Props/C09.v via %s" % failing, "log_tail": (log or "")[-1500:]})

    ctx.coverage.update({
        "evaluations": len(cases),
        "distinct_nontrivial": len(nontrivial),
        "rule": "non-trivial = distinct (script shape, fault position, exception class, writes before the fault, close decision, close() count, escaped, 500 served, disconnect position) among runs in which the scripted application raised",
        "samples": samples + conc_samples,
        "concurrent_handover_search": conc_ev,
        "outcome_distribution": dist,
        "first_exception_class_distribution": by_class,
    })


def replay(data):
    if data.get("kind") == "conc":
        from harness import task_conc as C
        scn = C.Scenario.from_json(data["scenario"])
        w = C.run_world(scn, schedule=data["choices"])
        bad = C.monitor(w)
        print("scenario=%s verdict=%s steps=%d wire=%d bytes" % (data.get("scenario_name"), w.verdict, len(w.sched.choices), len(w.wire)))
        print("objects now :", w.end["objs"] if w.end else None)
        print("final now   :", {k: v for k, v in w.final.items() if k != "blocked"})
        print("monitor now :", bad)
        print("observed then:", (data.get("observed") or {}).get("violations"))
        return 1 if bad else 0
    case = data["case"]
    real, extra = T.run_real(case)
    if data.get("kind") == "search":
        v = judge(case, real, extra, {})
        print("result now:", real, extra.get("raised"))
        print("search on the real code now:", v)
        return 0 if not v else 1
    print("observed now:", real)
    print("expected    :", data.get("expected"))
    exp = data.get("expected") or {}
    return 0 if all(exp.get(f) == real[f] for f in T.FIELDS) else 1
