#!/bin/bash
# Build the framework from files on disk only (offline).
set -e
cd "$(dirname "$0")"
export WAITRESS_REPO="${WAITRESS_REPO:-/repo}"
export PYTHONPATH="$WAITRESS_REPO/src:$(pwd)"
export PYTHONHASHSEED=0
mkdir -p _build _work evidence replays coq/Gen
/venv/bin/python - <<'PY'
from lib import vcommon
import glob, os, sys
probs = vcommon.run_translators()
for p in probs: print(p)
# C13's knob file is written by its own harness (checks/C13.py does the same before building)
try:
    from harness import chanfault as H
    src = vcommon.SRC
    with vcommon.Lock("gen"):
        print("knobs", H.write_knobs(src, os.path.join(vcommon.COQ, "Gen", "GenChanKnobs.v")))
except Exception as e:
    print("knob writer failed:", e)
vcommon.ensure_makefile()
targets = [f + "o" for f in vcommon.coq_files()]
ok, failing, log = vcommon.coq_make(targets, timeout=3000)
print(log[-3000:])
print("coq build ok" if ok else "coq build FAILED in %s" % failing)
# runners
for ext in sorted(glob.glob(os.path.join(vcommon.COQ, "Extract", "Ext*.v"))):
    name = os.path.basename(ext)
    comp = name[3:-2].lower()
    if os.path.exists(os.path.join(vcommon.VERIF, "ocaml", comp, "driver.ml")):
        path, l = vcommon.build_runner(comp, name)
        print("runner", comp, "ok" if path else "FAILED\n" + l[-2000:])
sys.exit(0)
PY
